//! Execution of one (hierarchy, query, fault script) case on the real `DnssecDnsHandle` and the
//! ground-truth oracle of C07.

use std::sync::Arc;

use futures_util::StreamExt;
use hickory_net::dnssec::DnssecDnsHandle;
use hickory_net::xfer::DnsHandle;
use hickory_proto::dnssec::rdata::DNSSECRData;
use hickory_proto::dnssec::{Proof, TrustAnchors};
use hickory_proto::op::{DnsRequestOptions, Message, Query, ResponseCode};
use hickory_proto::rr::{Name, RData, Record, RecordType};
use vcore::catch;
use vsec::hier::HierUpstream;
use vsec::upstream::Key;

use crate::faults::{Fault, Script};
use crate::hiers::{rdata_bytes, Hier, Status, T0};

#[derive(Clone, Debug, PartialEq, Eq)]
pub struct RecView {
    pub sec: u8,
    pub owner: Name,
    pub rtype: RecordType,
    pub rdata: Vec<u8>,
    pub proof: Proof,
    /// for RRSIG records: (type covered, signer)
    pub sig: Option<(RecordType, Name)>,
}

#[derive(Clone, Debug, PartialEq, Eq)]
pub enum Outcome {
    Ok { rcode: ResponseCode, recs: Vec<RecView> },
    Err(String),
    Panic(String, String),
}

pub struct Run {
    pub outcome: Outcome,
    pub log: Vec<Key>,
    pub inapplicable: bool,
}

fn view(sec: u8, r: &Record) -> RecView {
    RecView {
        sec,
        owner: r.name.clone(),
        rtype: r.record_type(),
        rdata: rdata_bytes(r),
        proof: r.proof,
        sig: match &r.data {
            RData::DNSSEC(DNSSECRData::RRSIG(s)) => Some((s.input().type_covered, s.input().signer_name.clone())),
            _ => None,
        },
    }
}

pub fn run_case(hier: &Arc<Hier>, q: &(Name, RecordType), faults: &[Fault], rt: &tokio::runtime::Runtime) -> Run {
    vsim::reset_clocks(T0 + 100);
    vsim::install_hook_clock();
    let script = Arc::new(Script::new(hier.clone(), faults.to_vec()));
    let up = HierUpstream::new(hier.h.clone(), script.clone());
    let mut a = TrustAnchors::empty();
    for k in &hier.h.anchors {
        a.insert(k);
    }
    let h = DnssecDnsHandle::with_trust_anchor(up.clone(), Arc::new(a));
    let query = Query::new(q.0.clone(), q.1);
    let res = catch(|| rt.block_on(async { h.lookup(query, DnsRequestOptions::default()).next().await }));
    let outcome = match res {
        Err(p) => Outcome::Panic(vcore::short_loc(&p.loc), p.msg),
        Ok(None) => Outcome::Err("no response".into()),
        Ok(Some(Err(e))) => Outcome::Err(e.to_string()),
        Ok(Some(Ok(resp))) => {
            let mut recs = vec![];
            for (s, v) in [(0u8, &resp.answers), (1u8, &resp.authorities), (2u8, &resp.additionals)] {
                recs.extend(v.iter().map(|r| view(s, r)));
            }
            Outcome::Ok { rcode: resp.metadata.response_code, recs }
        }
    };
    let log = up.log.lock().unwrap().clone();
    let inapplicable = *script.inapplicable.lock().unwrap();
    Run { outcome, log, inapplicable }
}

/// relation of a signer name to the zone that publishes the record
fn relation(hier: &Hier, signer: &Name, pz_origin: &Name) -> &'static str {
    if signer == pz_origin {
        return "own-zone";
    }
    let h = &hier.h;
    match h.zone_index(signer) {
        None => "no-such-zone",
        Some(_) if hier.status(signer, RecordType::SOA) == Status::Insecure => "insecure-zone",
        Some(_) if signer.zone_of(pz_origin) => "ancestor-zone",
        Some(_) if pz_origin.zone_of(signer) => "child-zone",
        Some(_) => "sibling-zone",
    }
}

#[derive(Clone, Debug, PartialEq, Eq, PartialOrd, Ord)]
pub struct Finding {
    /// oracle clause incl. the abstract scene of the offending record (no fault information)
    pub clause: String,
    pub what: String,
}

pub struct Judged {
    pub findings: Vec<Finding>,
    pub obs: Vec<String>,
    /// coarse outcome class
    pub class: String,
}

/// `honest_answer` = the honest upstream answer to the validator's query itself.
pub fn judge(hier: &Hier, q: &(Name, RecordType), honest_answer: &Message, out: &Outcome) -> Judged {
    let mut j = Judged { findings: vec![], obs: vec![], class: String::new() };
    let (rcode, recs) = match out {
        Outcome::Panic(loc, msg) => {
            j.findings.push(Finding { clause: format!("panic:{loc}"), what: format!("the validator panicked instead of returning an error/Bogus: {msg}") });
            j.class = "panic".into();
            return j;
        }
        Outcome::Err(_) => {
            j.class = "error".into();
            return j;
        }
        Outcome::Ok { rcode, recs } => (rcode, recs),
    };
    let qstatus = hier.status(&q.0, q.1);
    let mut classes: Vec<&str> = vec![];
    for r in recs.iter().filter(|r| r.sig.is_none()) {
        let st = hier.status(&r.owner, r.rtype);
        let pz = hier.h.zone_for(&r.owner, r.rtype).unwrap_or(0);
        let pz_origin = &hier.h.zones[pz].origin;
        let signers: Vec<&Name> = recs
            .iter()
            .filter(|s| s.sec == r.sec && s.proof == Proof::Secure && s.owner == r.owner)
            .filter_map(|s| s.sig.as_ref().filter(|(t, _)| *t == r.rtype).map(|(_, n)| n))
            .collect();
        let all_signers: Vec<&Name> = recs.iter().filter(|s| s.sec == r.sec && s.owner == r.owner).filter_map(|s| s.sig.as_ref().filter(|(t, _)| *t == r.rtype).map(|(_, n)| n)).collect();
        let sec_name = ["answer", "authority", "additional"][r.sec as usize];
        match r.proof {
            Proof::Secure => {
                if r.sec == 0 {
                    classes.push("secure");
                }
                let published = hier.published.contains(&(r.owner.to_lowercase().to_ascii(), u16::from(r.rtype), r.rdata.clone()))
                    || honest_answer.all_sections().any(|h| h.name == r.owner && h.record_type() == r.rtype && rdata_bytes(h) == r.rdata);
                let rel = signers.iter().map(|s| relation(hier, s, pz_origin)).find(|x| *x != "own-zone").unwrap_or(if signers.is_empty() { "unknown" } else { "own-zone" });
                if st == Status::Insecure {
                    j.findings.push(Finding {
                        clause: format!("secure-in-insecure-zone:{sec_name}:signer={rel}"),
                        what: format!("{} {} returned Secure although its zone {} has no chain of trust in the published hierarchy", r.owner, r.rtype, pz_origin),
                    });
                } else if !published {
                    if rel == "ancestor-zone" {
                        j.obs.push("obs:unpublished-data-secure-via-ancestor-key(not-judged)".into());
                    } else {
                        j.findings.push(Finding {
                            clause: format!("secure-unpublished-data:{sec_name}:signer={rel}"),
                            what: format!("{} {} returned Secure but the published zones hold no such record (validating RRSIG signer: {:?}, zone of the record: {})", r.owner, r.rtype, signers, pz_origin),
                        });
                    }
                } else if rel != "own-zone" && rel != "unknown" {
                    if rel == "ancestor-zone" {
                        j.obs.push("obs:published-data-secure-via-ancestor-key(not-judged)".into());
                    } else {
                        j.findings.push(Finding {
                            clause: format!("secure-via-foreign-signer:{sec_name}:signer={rel}"),
                            what: format!("{} {} (published data) returned Secure on the strength of an RRSIG by {:?}, which is not the record's zone {}", r.owner, r.rtype, signers, pz_origin),
                        });
                    }
                }
            }
            Proof::Insecure => {
                if r.sec == 0 {
                    classes.push("insecure");
                }
                if st == Status::Secure {
                    let rel = all_signers.iter().map(|s| relation(hier, s, pz_origin)).find(|x| *x != "own-zone").unwrap_or(if all_signers.is_empty() { "unsigned" } else { "own-zone" });
                    j.findings.push(Finding {
                        clause: format!("insecure-for-signed-zone:{sec_name}:rrsig={rel}"),
                        what: format!("{} {} returned Insecure although every delegation down to its zone {} is signed with a supported DS in the published hierarchy", r.owner, r.rtype, pz_origin),
                    });
                }
            }
            Proof::Bogus => {
                if r.sec == 0 {
                    classes.push("bogus");
                }
            }
            Proof::Indeterminate => {
                if r.sec == 0 {
                    classes.push("indeterminate");
                }
                j.obs.push("obs:data-record-indeterminate".into());
            }
        }
    }
    // negative answer accepted
    let has_answer = recs.iter().any(|r| r.sec == 0);
    if !has_answer {
        let truth_positive = !honest_answer.answers.is_empty();
        let validated_denial = recs.iter().any(|r| r.sec == 1 && r.proof == Proof::Secure && matches!(r.rtype, RecordType::NSEC | RecordType::NSEC3));
        let any_insecure = recs.iter().any(|r| r.sec == 1 && r.proof == Proof::Insecure);
        let pc = if validated_denial {
            "validated-denial"
        } else if any_insecure {
            "insecure-authority"
        } else if recs.iter().any(|r| r.sec == 1) {
            "unvalidated-authority"
        } else {
            "empty"
        };
        classes.push(match pc {
            "validated-denial" => "negative-secure",
            "insecure-authority" => "negative-insecure",
            _ => "negative-unproven",
        });
        if qstatus == Status::Secure {
            if truth_positive {
                j.findings.push(Finding {
                    clause: format!("denial-accepted-for-published-data:{pc}"),
                    what: format!("{} {} exists in the published signed zone, but a response without it (rcode {rcode}) was accepted", q.0, q.1),
                });
            } else if !validated_denial {
                j.findings.push(Finding {
                    clause: format!("negative-accepted-without-validated-denial:{pc}"),
                    what: format!("negative answer for {} {} in a signed zone accepted (rcode {rcode}) without any validated NSEC/NSEC3", q.0, q.1),
                });
            }
        }
    }
    classes.sort();
    classes.dedup();
    j.class = format!("ok:{}", classes.join("+"));
    j.findings.sort();
    j.findings.dedup();
    j
}
