//! Execution of one (hierarchy, query, fault script) case on the real `DnssecDnsHandle` and the
//! ground-truth oracle of C07.

use std::sync::Arc;

use futures_util::StreamExt;
use hickory_net::dnssec::DnssecDnsHandle;
use hickory_net::xfer::DnsHandle;
use hickory_proto::dnssec::rdata::DNSSECRData;
use hickory_proto::dnssec::{Proof, TrustAnchors};
use hickory_proto::op::{DnsRequestOptions, Message, Query, ResponseCode};
use hickory_proto::rr::{Name, RData, Record, RecordType};
use vcore::catch;
use vsec::hier::HierUpstream;
use vsec::upstream::Key;

use crate::faults::{Fault, Script};
use crate::hiers::{rdata_bytes, Hier, Status, T0};

#[derive(Clone, Debug, PartialEq, Eq)]
pub struct RecView {
    pub sec: u8,
    pub owner: Name,
    pub rtype: RecordType,
    pub class: u16,
    pub rdata: Vec<u8>,
    pub proof: Proof,
    /// for RRSIG records: (type covered, signer)
    pub sig: Option<(RecordType, Name)>,
}

#[derive(Clone, Debug, PartialEq, Eq)]
pub enum Outcome {
    Ok { rcode: ResponseCode, recs: Vec<RecView> },
    Err(String),
    Panic(String, String),
}

pub struct Run {
    pub outcome: Outcome,
    pub log: Vec<Key>,
    pub inapplicable: bool,
}

pub fn view_record(sec: u8, r: &Record) -> RecView {
    view(sec, r)
}

fn view(sec: u8, r: &Record) -> RecView {
    RecView {
        sec,
        owner: r.name.clone(),
        rtype: r.record_type(),
        class: u16::from(r.dns_class),
        rdata: rdata_bytes(r),
        proof: r.proof,
        sig: match &r.data {
            RData::DNSSEC(DNSSECRData::RRSIG(s)) => Some((s.input().type_covered, s.input().signer_name.clone())),
            _ => None,
        },
    }
}

pub fn run_case(hier: &Arc<Hier>, q: &(Name, RecordType), faults: &[Fault], rt: &tokio::runtime::Runtime) -> Run {
    vsim::reset_clocks(T0 + 100);
    vsim::install_hook_clock();
    let script = Arc::new(Script::new(hier.clone(), faults.to_vec()));
    let up = HierUpstream::new(hier.h.clone(), script.clone());
    let mut a = TrustAnchors::empty();
    for k in &hier.h.anchors {
        a.insert(k);
    }
    let h = DnssecDnsHandle::with_trust_anchor(up.clone(), Arc::new(a));
    let query = Query::new(q.0.clone(), q.1);
    let res = catch(|| rt.block_on(async { h.lookup(query, DnsRequestOptions::default()).next().await }));
    let outcome = match res {
        Err(p) => Outcome::Panic(vcore::short_loc(&p.loc), p.msg),
        Ok(None) => Outcome::Err("no response".into()),
        Ok(Some(Err(e))) => Outcome::Err(e.to_string()),
        Ok(Some(Ok(resp))) => {
            let mut recs = vec![];
            for (s, v) in [(0u8, &resp.answers), (1u8, &resp.authorities), (2u8, &resp.additionals)] {
                recs.extend(v.iter().map(|r| view(s, r)));
            }
            Outcome::Ok { rcode: resp.metadata.response_code, recs }
        }
    };
    let log = up.log.lock().unwrap().clone();
    let inapplicable = *script.inapplicable.lock().unwrap();
    Run { outcome, log, inapplicable }
}

/// relation of an RRSIG signer to the record it covers and to the zone that publishes the record
fn relation(signer: &Name, owner: &Name, pz_origin: &Name) -> &'static str {
    if signer == pz_origin {
        "own-zone"
    } else if !signer.zone_of(owner) {
        // a zone that has no authority over the owner name at all
        "signer-not-enclosing-owner"
    } else if signer.zone_of(pz_origin) {
        "ancestor-zone"
    } else {
        // encloses the owner but lies below the publishing zone: the child side of a zone cut
        "child-side-of-cut"
    }
}

/// Key of a panic: source file and a slug of the message. The line number is left out on purpose:
/// every unrelated edit further up in the same file would change the key.
pub fn panic_key(prefix: &str, loc: &str, msg: &str) -> String {
    let file = loc.rsplit_once(':').map(|x| x.0).unwrap_or(loc);
    let slug: String = msg.chars().take(48).map(|c| if c.is_ascii_alphanumeric() { c } else { '-' }).collect();
    let mut out = String::new();
    for c in slug.chars() {
        if !(c == '-' && out.ends_with('-')) {
            out.push(c);
        }
    }
    format!("{prefix}:{file}:{}", out.trim_matches('-'))
}

#[derive(Clone, Debug, PartialEq, Eq, PartialOrd, Ord)]
pub struct Finding {
    /// oracle clause incl. the abstract scene of the offending record (no fault information)
    pub clause: String,
    pub what: String,
}

pub struct Judged {
    pub findings: Vec<Finding>,
    pub obs: Vec<String>,
    /// coarse outcome class
    pub class: String,
}

/// `honest_answer` = the honest upstream answer to the validator's query itself.
pub fn judge(hier: &Hier, q: &(Name, RecordType), honest_answer: &Message, out: &Outcome) -> Judged {
    let mut j = Judged { findings: vec![], obs: vec![], class: String::new() };
    let (rcode, recs) = match out {
        Outcome::Panic(loc, msg) => {
            j.findings.push(Finding { clause: panic_key("panic", loc, msg), what: format!("the validator panicked at {loc} instead of returning an error/Bogus: {msg}") });
            j.class = "panic".into();
            return j;
        }
        Outcome::Err(_) => {
            j.class = "error".into();
            return j;
        }
        Outcome::Ok { rcode, recs } => (rcode, recs),
    };
    let qstatus = hier.status(&q.0, q.1);
    let mut classes: Vec<&str> = vec![];
    let mut secure_groups: Vec<(u8, Name, RecordType, usize)> = vec![];
    for r in recs.iter().filter(|r| r.sig.is_none()) {
        // the zones that publish this very record (at a zone cut parent and child may both publish
        // the same record); unpublished data is attributed to the zone that would be
        // authoritative for it
        let publishers: Vec<usize> = match hier.published.get(&(r.owner.to_lowercase().to_ascii(), u16::from(r.rtype), r.rdata.clone())) {
            Some(v) => v.clone(),
            None => vec![],
        };
        let is_published = !publishers.is_empty();
        let cand: Vec<usize> = if is_published { publishers.clone() } else { vec![hier.h.zone_for(&r.owner, r.rtype).unwrap_or(0)] };
        let signers: Vec<&Name> = recs
            .iter()
            .filter(|s| s.sec == r.sec && s.proof == Proof::Secure && s.owner == r.owner)
            .filter_map(|s| s.sig.as_ref().filter(|(t, _)| *t == r.rtype).map(|(_, n)| n))
            .collect();
        let all_signers: Vec<&Name> = recs.iter().filter(|s| s.sec == r.sec && s.owner == r.owner).filter_map(|s| s.sig.as_ref().filter(|(t, _)| *t == r.rtype).map(|(_, n)| n)).collect();
        let sec_name = ["answer", "authority", "additional"][r.sec as usize];
        // the candidate zone that fits best: secure and (one of) the validating signer(s)
        let pz = *cand
            .iter()
            .find(|z| hier.status_zone(**z) == Status::Secure && signers.iter().any(|s| **s == hier.h.zones[**z].origin))
            .or_else(|| cand.iter().find(|z| hier.status_zone(**z) == Status::Secure))
            .unwrap_or(&cand[0]);
        let pz_origin = &hier.h.zones[pz].origin;
        match r.proof {
            Proof::Secure if r.class != 1 => {
                // every published zone is class IN: a record of another class is no member of
                // any RRset a signature of these zones speaks for
                j.findings.push(Finding {
                    clause: format!("secure-record-of-foreign-class:{sec_name}"),
                    what: format!("{} {} with class {} returned Secure; the published zones are class IN", r.owner, r.rtype, r.class),
                });
            }
            Proof::Secure => {
                if r.sec == 0 {
                    classes.push("secure");
                }
                if !secure_groups.iter().any(|g| g.0 == r.sec && g.1 == r.owner && g.2 == r.rtype) {
                    secure_groups.push((r.sec, r.owner.clone(), r.rtype, pz));
                }
                let published = is_published || honest_answer.all_sections().any(|h| h.name == r.owner && h.record_type() == r.rtype && rdata_bytes(h) == r.rdata);
                let rel = signers.iter().map(|s| relation(s, &r.owner, pz_origin)).find(|x| *x != "own-zone").unwrap_or(if signers.is_empty() { "unknown" } else { "own-zone" });
                if hier.status_zone(pz) == Status::Bogus {
                    j.findings.push(Finding {
                        clause: format!("secure-in-zone-without-matching-ds:{rel}"),
                        what: format!("{} {} returned Secure although no supported DS of its zone {} matches a key of that zone", r.owner, r.rtype, pz_origin),
                    });
                } else if hier.status_zone(pz) == Status::Insecure {
                    j.findings.push(Finding {
                        clause: format!("secure-in-insecure-zone:{rel}"),
                        what: format!("{} {} returned Secure although its zone {} has no chain of trust in the published hierarchy", r.owner, r.rtype, pz_origin),
                    });
                } else if !published {
                    if rel == "ancestor-zone" {
                        j.obs.push("obs:unpublished-data-secure-via-ancestor-key(not-judged)".into());
                    } else {
                        j.findings.push(Finding {
                            clause: format!("secure-unpublished-data:{sec_name}:{rel}").replace("answer:signer-not", "signer-not").replace("authority:signer-not", "signer-not").replace("additional:signer-not", "signer-not"),
                            what: format!("{} {} returned Secure but the published zones hold no such record (validating RRSIG signer: {:?}, zone of the record: {})", r.owner, r.rtype, signers, pz_origin),
                        });
                    }
                } else if rel != "own-zone" && rel != "unknown" {
                    if rel == "ancestor-zone" {
                        j.obs.push("obs:published-data-secure-via-ancestor-key(not-judged)".into());
                    } else {
                        j.findings.push(Finding {
                            clause: format!("secure-via-foreign-signer:{rel}"),
                            what: format!("{} {} (published data) returned Secure on the strength of an RRSIG by {:?}, which is not the record's zone {}", r.owner, r.rtype, signers, pz_origin),
                        });
                    }
                }
            }
            Proof::Insecure => {
                if r.sec == 0 {
                    classes.push("insecure");
                }
                // allowed when some zone that publishes the record (or, for unpublished data, the
                // zone that would hold it) is genuinely insecure
                // (judged on answer records; an accepted negative answer is judged as a whole below)
                if r.sec == 0 && cand.iter().all(|z| hier.status_zone(*z) != Status::Insecure) {
                    let rel = if all_signers.iter().any(|s| relation(s, &r.owner, pz_origin) == "signer-not-enclosing-owner") { "rrsig-signer-not-enclosing-owner" } else { "answer" };
                    j.findings.push(Finding {
                        clause: format!("insecure-for-signed-zone:{rel}"),
                        what: format!("{} {} returned Insecure although every delegation down to its zone {} is signed with a supported DS in the published hierarchy", r.owner, r.rtype, pz_origin),
                    });
                }
            }
            Proof::Bogus => {
                if r.sec == 0 {
                    classes.push("bogus");
                }
            }
            Proof::Indeterminate => {
                if r.sec == 0 {
                    classes.push("indeterminate");
                }
                // a data record of a signed zone handed out without any verdict: neither
                // Secure nor an error/Bogus
                if r.sec == 0 && cand.iter().all(|z| hier.status_zone(*z) != Status::Insecure) {
                    j.findings.push(Finding {
                        clause: "indeterminate-data-for-signed-zone".into(),
                        what: format!("{} {} of the signed zone {} returned without a verdict (proof Indeterminate)", r.owner, r.rtype, pz_origin),
                    });
                } else {
                    j.obs.push("obs:data-record-indeterminate".into());
                }
            }
        }
    }
    // RRset exactness: the Secure records of one (section, owner, type) must be the whole
    // published RRset (or the whole honestly synthesised one), not a part of it
    for (sec, owner, rtype, pz) in &secure_groups {
        let (sec, rtype) = (*sec, *rtype);
        let got: std::collections::BTreeSet<&Vec<u8>> = recs.iter().filter(|r| r.sec == sec && r.sig.is_none() && r.proof == Proof::Secure && r.owner == *owner && r.rtype == rtype).map(|r| &r.rdata).collect();
        // the RRset as published by the zone the records were attributed to
        let mut want: std::collections::BTreeSet<Vec<u8>> = hier.h.zones[*pz].published.iter().filter(|p| p.name == *owner && p.record_type() == rtype).map(rdata_bytes).collect();
        if want.is_empty() {
            want = honest_answer.all_sections().filter(|h| h.name == *owner && h.record_type() == rtype).map(rdata_bytes).collect();
        }
        if !want.is_empty() && got.iter().all(|g| want.contains(*g)) && got.len() < want.len() {
            j.findings.push(Finding {
                clause: format!("secure-rrset-altered:part-of-published-rrset:{rtype}"),
                what: format!("{} {}: {} of the {} published records returned Secure as if they were the whole RRset", owner, rtype, got.len(), want.len()),
            });
        }
    }
    // negative answer accepted
    let has_answer = recs.iter().any(|r| r.sec == 0);
    if !has_answer {
        let truth_positive = !honest_answer.answers.is_empty();
        let validated_denial = recs.iter().any(|r| r.sec == 1 && r.proof == Proof::Secure && matches!(r.rtype, RecordType::NSEC | RecordType::NSEC3));
        let any_insecure = recs.iter().any(|r| r.sec == 1 && r.proof == Proof::Insecure);
        let foreign_sig = recs.iter().any(|r| r.sec == 1 && r.proof == Proof::Insecure && r.sig.as_ref().map(|(_, n)| !n.zone_of(&r.owner)).unwrap_or(false));
        // (the former class "unauthenticated NSEC beside a Secure record of the same owner" named RC4 by
        // construction; RC4 is repaired (9d82d09), such responses now fall under the general classes)
        let pc = if validated_denial {
            "validated-denial"
        } else if any_insecure && foreign_sig {
            "authority-rrsig-signer-not-enclosing-owner"
        } else if any_insecure {
            "insecure-authority"
        } else if recs.iter().any(|r| r.sec == 1) {
            "unvalidated-authority"
        } else {
            "empty"
        };
        classes.push(match pc {
            "validated-denial" => "negative-secure",
            "insecure-authority" | "authority-rrsig-signer-not-enclosing-owner" => "negative-insecure",
            _ => "negative-unproven",
        });
        if qstatus != Status::Insecure {
            if truth_positive {
                j.findings.push(Finding {
                    clause: format!("denial-accepted-for-published-data:{pc}"),
                    what: format!("{} {} exists in the published signed zone, but a response without it (rcode {rcode}) was accepted", q.0, q.1),
                });
            } else if !validated_denial {
                j.findings.push(Finding {
                    clause: format!("negative-accepted-without-validated-denial:{pc}"),
                    what: format!("negative answer for {} {} in a signed zone accepted (rcode {rcode}) without any validated NSEC/NSEC3", q.0, q.1),
                });
            }
        }
    }
    classes.sort();
    classes.dedup();
    j.class = format!("ok:{}", classes.join("+"));
    j.findings.sort();
    j.findings.dedup();
    j
}
