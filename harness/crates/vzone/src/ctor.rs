//! Construction paths: the same zone built through every public constructor / from-config path
//! production code uses, with every knob at a chosen value, so that a knob lost or swapped in the
//! plumbing of one path is visible as a difference to the directly built object.
//!
//! Paths (what `bin/src/config/mod.rs ZoneConfig::load` + `bin/src/dnssec.rs load_keys` do; that
//! function itself is `pub(crate)` in the binary crate and only reachable through
//! `DnsServer::run`, which binds sockets - it is mirrored here call by call):
//!
//! * `Direct`       - `InMemoryZoneHandler::empty` + `upsert_mut` + `add_zone_signing_key_mut` +
//!                    `secure_zone_mut` (what [`crate::build_opts`] does; the baseline);
//! * `New`          - `InMemoryZoneHandler::new(origin, records, zone_type, axfr_policy, nx)`;
//! * `File`         - `FileZoneHandler::try_from_config(origin, zone_type, axfr_policy, root_dir,
//!                    &FileConfig, nx)` from a zone file, then the async `add_zone_signing_key` +
//!                    `secure_zone` of `DnssecZoneHandler` (`load_keys`);
//! * `SqliteFirst`  - `SqliteZoneHandler::try_from_config(origin, zone_type, axfr_policy,
//!                    enable_dnssec, root_dir, &SqliteConfig, nx)` with no journal (zone file read,
//!                    journal created), then `load_keys`;
//! * `SqliteSecond` - the same call again in the same directory after the first handler was
//!                    dropped: the journal exists, the recovery branch runs, then `load_keys`.
//!
//! The non-existence proof kind can be given as a value or - as the configuration file does -
//! deserialised (`NxProofKind: Deserialize`), all four fields of `Nsec3 {..}` set.

use std::collections::BTreeMap;
use std::path::Path;
use std::sync::Arc;
use std::time::Duration;

use hickory_proto::dnssec::rdata::{DNSSECRData, DNSKEY};
use hickory_proto::dnssec::{DnssecSigner, SigningKey};
use hickory_proto::op::Message;
use hickory_proto::rr::{LowerName, Name, RData, Record, RecordSet, RrKey};
use hickory_server::dnssec::NxProofKind;
use hickory_server::store::file::{FileConfig, FileZoneHandler};
use hickory_server::store::in_memory::InMemoryZoneHandler;
use hickory_server::store::sqlite::{SqliteConfig, SqliteZoneHandler};
use hickory_server::zone_handler::{AxfrPolicy, Catalog, DnssecZoneHandler, ZoneHandler, ZoneType};
use serde_json::json;
use vsim::SimProvider;

use crate::{hname, Built, Signing, ZoneSpec};

#[derive(Clone, Copy, PartialEq, Eq, Debug)]
pub enum CtorPath {
    New,
    File,
    SqliteFirst,
    SqliteSecond,
}

impl CtorPath {
    pub const ALL: [CtorPath; 4] = [CtorPath::New, CtorPath::File, CtorPath::SqliteFirst, CtorPath::SqliteSecond];
    pub fn tag(self) -> &'static str {
        match self {
            CtorPath::New => "inmemory-new",
            CtorPath::File => "file-try_from_config",
            CtorPath::SqliteFirst => "sqlite-try_from_config-first-start",
            CtorPath::SqliteSecond => "sqlite-try_from_config-second-start",
        }
    }
    pub fn from_tag(s: &str) -> Option<CtorPath> {
        CtorPath::ALL.into_iter().find(|p| p.tag() == s)
    }
    pub fn is_sqlite(self) -> bool {
        matches!(self, CtorPath::SqliteFirst | CtorPath::SqliteSecond)
    }
}

#[derive(Clone, Copy, PartialEq, Eq, Debug)]
pub struct CtorKnobs {
    pub secondary: bool,
    pub axfr_allow_all: bool,
    pub allow_update: bool,
    /// the catalog entry is made under the zone name as a configuration file may spell it (upper case)
    pub upper_catalog_name: bool,
    /// the proof kind is deserialised (configuration file) instead of given as a value
    pub nx_from_config: bool,
}

impl CtorKnobs {
    /// every knob away from its default
    pub const NON_DEFAULT: CtorKnobs = CtorKnobs { secondary: true, axfr_allow_all: true, allow_update: true, upper_catalog_name: true, nx_from_config: true };
    /// every knob at its default (so that a swap of two knobs is visible in both directions)
    pub const DEFAULT: CtorKnobs = CtorKnobs { secondary: false, axfr_allow_all: false, allow_update: false, upper_catalog_name: false, nx_from_config: false };
    /// adjacent same-typed parameters at different values
    pub const MIXED: CtorKnobs = CtorKnobs { secondary: false, axfr_allow_all: true, allow_update: false, upper_catalog_name: false, nx_from_config: true };
    pub fn tag(&self) -> String {
        format!(
            "{}/{}/upd={}/catalog={}/nx={}",
            if self.secondary { "secondary" } else { "primary" },
            if self.axfr_allow_all { "axfr-all" } else { "axfr-deny" },
            self.allow_update,
            if self.upper_catalog_name { "UPPER" } else { "lower" },
            if self.nx_from_config { "config" } else { "value" }
        )
    }
    pub fn to_json(&self) -> serde_json::Value {
        json!([self.secondary, self.axfr_allow_all, self.allow_update, self.upper_catalog_name, self.nx_from_config])
    }
    pub fn from_json(v: &serde_json::Value) -> Option<CtorKnobs> {
        let a = v.as_array()?;
        let b = |i: usize| a.get(i).and_then(|x| x.as_bool());
        Some(CtorKnobs { secondary: b(0)?, axfr_allow_all: b(1)?, allow_update: b(2)?, upper_catalog_name: b(3)?, nx_from_config: b(4)? })
    }
    pub fn build_opts(&self, sqlite: bool) -> crate::BuildOpts {
        crate::BuildOpts {
            front: if sqlite { crate::Front::Sqlite } else { crate::Front::InMemory },
            secondary: self.secondary,
            axfr_allow_all: self.axfr_allow_all,
            allow_update: self.allow_update,
            ..crate::BuildOpts::default()
        }
    }
}

/// What the handler says about itself (the knobs that have getters on `ZoneHandler`).
#[derive(Clone, PartialEq, Eq, Debug)]
pub struct Getters {
    pub origin: String,
    pub zone_type: String,
    pub axfr_policy: String,
    pub nx_proof_kind: String,
}

impl Getters {
    pub fn of(h: &dyn ZoneHandler) -> Getters {
        Getters { origin: h.origin().to_string(), zone_type: format!("{:?}", h.zone_type()), axfr_policy: format!("{:?}", h.axfr_policy()), nx_proof_kind: format!("{:?}", h.nx_proof_kind()) }
    }
    /// What the knobs ask for.
    pub fn expected(spec: &ZoneSpec, signing: &Signing, k: &CtorKnobs) -> Getters {
        Getters {
            origin: spec.origin.to_ascii_lowercase(),
            zone_type: format!("{:?}", if k.secondary { ZoneType::Secondary } else { ZoneType::Primary }),
            axfr_policy: format!("{:?}", if k.axfr_allow_all { AxfrPolicy::AllowAll } else { AxfrPolicy::Deny }),
            nx_proof_kind: format!("{:?}", nx_value(signing).as_ref()),
        }
    }
}

/// Signature validity the server binary configures (`KeyConfig::try_into_signer`: 52 weeks).
pub const SIG_DURATION: Duration = Duration::from_secs(52 * 7 * 86400);

/// `DnssecSigner::new(key, signer_name, sig_duration)` the way `KeyConfig::try_into_signer` calls it:
/// the zone's fixed key, signer name = zone name, 52 weeks (the direct path uses one day).
pub fn config_signer(origin: &str) -> DnssecSigner {
    let (_, pk) = crate::zone_key(origin);
    let k: Box<dyn SigningKey> = Box::new(crate::key_pair_pub(origin));
    DnssecSigner::new(DNSKEY::from_key(&pk), k, hname(origin), SIG_DURATION)
}

pub fn nx_value(signing: &Signing) -> Option<NxProofKind> {
    match signing {
        Signing::Unsigned => None,
        Signing::Nsec => Some(NxProofKind::Nsec),
        Signing::Nsec3 { iterations, salt, opt_out } => {
            Some(NxProofKind::Nsec3 { algorithm: Default::default(), salt: Arc::from(salt.clone().into_boxed_slice()), iterations: *iterations, opt_out: *opt_out })
        }
    }
}

/// The proof kind as the configuration file gives it: deserialised, every field of `nsec3` spelled out.
pub fn nx_config(signing: &Signing) -> Result<Option<NxProofKind>, String> {
    let v = match signing {
        Signing::Unsigned => return Ok(None),
        Signing::Nsec => json!("nsec"),
        Signing::Nsec3 { iterations, salt, opt_out } => json!({"nsec3": {"algorithm": "SHA-1", "salt": salt, "iterations": iterations, "opt_out": opt_out}}),
    };
    match serde_json::from_value::<NxProofKind>(v.clone()) {
        Ok(k) => Ok(Some(k)),
        Err(e) => {
            // the spelling of the (single) hash algorithm is not what this family is about
            if let Signing::Nsec3 { iterations, salt, opt_out } = signing {
                let v2 = json!({"nsec3": {"salt": salt, "iterations": iterations, "opt_out": opt_out}});
                return serde_json::from_value::<NxProofKind>(v2).map(Some).map_err(|e2| format!("NxProofKind does not deserialise: {e} / {e2}"));
            }
            Err(format!("NxProofKind does not deserialise from {v}: {e}"))
        }
    }
}

/// The zone as master-file text (one record per line, absolute names).
pub fn zone_text(spec: &ZoneSpec) -> String {
    let mut s = String::new();
    for r in spec.hickory_records() {
        s.push_str(&format!("{r}\n"));
    }
    s
}

fn flatten(m: &BTreeMap<RrKey, Arc<RecordSet>>) -> Vec<Record> {
    let mut v = vec![];
    for rs in m.values() {
        for r in rs.records_with_rrsigs() {
            v.push(r.clone());
        }
    }
    v
}

async fn load_keys(h: &impl DnssecZoneHandler, spec: &ZoneSpec, signing: &Signing) -> Result<(), String> {
    if !signing.is_signed() {
        return Ok(());
    }
    h.add_zone_signing_key(config_signer(&spec.origin)).await.map_err(|e| format!("add_zone_signing_key: {e}"))?;
    h.secure_zone().await.map_err(|e| format!("secure_zone: {e}"))
}

/// Build `spec` through `path`. `dir` is an existing, empty scratch directory owned by the caller
/// (used by the file-based paths).
pub fn build_via(path: CtorPath, spec: &ZoneSpec, signing: &Signing, k: &CtorKnobs, dir: &Path, rt: &tokio::runtime::Runtime) -> Result<(Built, Getters), String> {
    let origin = hname(&spec.origin);
    let zone_type = if k.secondary { ZoneType::Secondary } else { ZoneType::Primary };
    let policy = if k.axfr_allow_all { AxfrPolicy::AllowAll } else { AxfrPolicy::Deny };
    let nx = if k.nx_from_config { nx_config(signing)? } else { nx_value(signing) };
    let (handler, records): (Arc<dyn ZoneHandler>, Vec<Record>) = match path {
        CtorPath::New => {
            let mut map: BTreeMap<RrKey, RecordSet> = BTreeMap::new();
            for r in spec.hickory_records() {
                let key = RrKey::new(LowerName::new(&r.name), r.record_type());
                map.entry(key).or_insert_with(|| RecordSet::new(r.name.clone(), r.record_type(), 1)).insert(r.clone(), 1);
            }
            let mut zone = InMemoryZoneHandler::<SimProvider>::new(origin.clone(), map, zone_type, policy, nx)?;
            if signing.is_signed() {
                zone.add_zone_signing_key_mut(config_signer(&spec.origin)).map_err(|e| e.to_string())?;
                zone.secure_zone_mut().map_err(|e| e.to_string())?;
            }
            let recs = flatten(zone.records_get_mut());
            (Arc::new(zone), recs)
        }
        CtorPath::File => {
            std::fs::write(dir.join("z.zone"), zone_text(spec)).map_err(|e| e.to_string())?;
            let h = FileZoneHandler::try_from_config(origin.clone(), zone_type, policy, Some(dir), &FileConfig { zone_path: "z.zone".into() }, nx)?;
            let recs = rt.block_on(async {
                load_keys(&h, spec, signing).await?;
                Ok::<_, String>(flatten(&*h.records().await))
            })?;
            (Arc::new(h), recs)
        }
        CtorPath::SqliteFirst | CtorPath::SqliteSecond => {
            std::fs::write(dir.join("z.zone"), zone_text(spec)).map_err(|e| e.to_string())?;
            let _ = std::fs::remove_file(dir.join("z.jrnl"));
            let starts = if path == CtorPath::SqliteSecond { 2 } else { 1 };
            let mut last = None;
            for start in 0..starts {
                // (a stopped server: the previous handler and its journal connection are gone)
                drop(last.take());
                if start == 1 && !dir.join("z.jrnl").exists() {
                    return Err("the first start did not create the journal file".into());
                }
                let config = SqliteConfig { zone_path: "z.zone".into(), journal_path: "z.jrnl".into(), allow_update: k.allow_update, tsig_keys: vec![] };
                let h = rt.block_on(async {
                    let h = SqliteZoneHandler::<SimProvider>::try_from_config(origin.clone(), zone_type, policy, signing.is_signed(), Some(dir), &config, nx.clone()).await?;
                    load_keys(&h, spec, signing).await?;
                    Ok::<_, String>(h)
                })?;
                last = Some(h);
            }
            let h = last.unwrap();
            let recs = rt.block_on(async { flatten(&*h.records().await) });
            (Arc::new(h), recs)
        }
    };
    let getters = Getters::of(&*handler);
    let mut catalog = Catalog::new();
    let entry = if k.upper_catalog_name { Name::from_ascii(spec.origin.to_ascii_uppercase()).map_err(|e| e.to_string())? } else { origin.clone() };
    catalog.upsert(LowerName::new(&entry), vec![handler]);
    Ok((Built { spec: spec.clone(), signing: signing.clone(), records, catalog }, getters))
}

/// A response reduced to what does not depend on the signing instant, the signature validity
/// period or the number of times the zone was (re-)signed: RRSIGs keep type covered, algorithm,
/// labels, original TTL, key tag and signer; the SOA serial is dropped.
pub fn normalized(bytes: &[u8]) -> Result<Vec<String>, String> {
    let m = Message::from_vec(bytes).map_err(|e| format!("undecodable response: {e}"))?;
    let mut out = vec![format!("rcode={:?} aa={} tc={} ra={}", m.metadata.response_code, m.metadata.authoritative, m.metadata.truncation, m.metadata.recursion_available)];
    for (sec, rs) in [("an", &m.answers), ("ns", &m.authorities), ("ar", &m.additionals)] {
        let mut v: Vec<String> = rs.iter().map(|r| format!("{sec} {}", normalized_record(r))).collect();
        v.sort();
        out.extend(v);
    }
    Ok(out)
}

pub fn normalized_record(r: &Record) -> String {
    match &r.data {
        RData::DNSSEC(DNSSECRData::RRSIG(s)) => {
            let i = s.input();
            format!("{} {} RRSIG covered={} alg={:?} labels={} ottl={} tag={} signer={}", r.name, r.ttl, i.type_covered, i.algorithm, i.num_labels, i.original_ttl, i.key_tag, i.signer_name)
        }
        RData::SOA(soa) => format!("{} {} SOA {} {} serial=* {} {} {} {}", r.name, r.ttl, soa.mname, soa.rname, soa.refresh, soa.retry, soa.expire, soa.minimum),
        _ => format!("{r}"),
    }
}

/// Every RRSIG of the zone: signer name = zone, validity = `expected` (the `sig_duration` handed
/// to `DnssecSigner::new`). Returns the deviations.
pub fn rrsig_plumbing(records: &[Record], origin: &Name, expected: Duration) -> Vec<String> {
    let mut bad = vec![];
    for r in records {
        if let RData::DNSSEC(DNSSECRData::RRSIG(s)) = &r.data {
            let i = s.input();
            if &i.signer_name != origin {
                bad.push(format!("RRSIG({}) at {} names signer {}", i.type_covered, r.name, i.signer_name));
            }
            let validity = i.sig_expiration.get().wrapping_sub(i.sig_inception.get());
            if validity as u64 != expected.as_secs() {
                bad.push(format!("RRSIG({}) at {} is valid for {validity} s, the signer was configured with {} s", i.type_covered, r.name, expected.as_secs()));
            }
        }
    }
    bad.sort();
    bad.dedup();
    bad
}

/// The published NSEC3PARAM records: (hash algorithm number, opt-out flag as published, iterations, salt).
pub fn nsec3params(records: &[Record]) -> Vec<(u8, bool, u16, Vec<u8>)> {
    records
        .iter()
        .filter_map(|r| match &r.data {
            RData::DNSSEC(DNSSECRData::NSEC3PARAM(p)) => Some((u8::from(p.hash_algorithm()), p.opt_out(), p.iterations(), p.salt().to_vec())),
            _ => None,
        })
        .collect()
}
