//! vzone — the small name universe of DESIGN.md 5.1 and the glue that materialises a zone
//! through the REAL hickory server code (unsigned / NSEC-signed / NSEC3-signed, fixed keys).
//!
//! Small public API (used by C10, C08, C09; meant to be reused by C07 / C12):
//!
//! * [`universe`]`(depth)` – the names of U(d) (labels {a,b,*} below the origin `z.`).
//! * [`Kind`], [`ZoneSpec`] – an abstract zone: origin + `(owner, node kind)` list. The apex
//!   (SOA, NS -> `ns.o.`) is implicit. [`ZoneSpec::records`] is the one flat record list from
//!   which BOTH the real zone and the reference zone are built (so they cannot drift apart).
//! * [`family`]`(names, max_owners, kinds)` – every zone with <= max_owners owners (deterministic order).
//! * [`ZoneSpec::reference`] – the same content as a `vref::zone::Zone` (reference model input).
//! * [`ZoneSpec::query_names`] – the query-name universe "in and around the zone".
//! * [`Signing`], [`build`] -> [`Built`] – `InMemoryZoneHandler<SimProvider>` filled with
//!   `upsert_mut`, signed by the real `add_zone_signing_key_mut` + `secure_zone_mut`, wrapped in
//!   a real `Catalog`; `Built::records` is the full dump including RRSIG / NSEC / NSEC3.
//! * [`BuildOpts`], [`build_opts`] – every per-zone configuration knob explicit (zone type, AXFR policy, Sqlite wrapper flags).
//! * [`QueryShape`], [`query_bytes_shape`] – request flags RD/CD/AD and the OPT record (absent / DO=0 / DO=1, payload).
//! * [`Front`], [`build_front`] – the same zone behind the `SqliteZoneHandler` wrapper (differential front end).
//! * [`ZoneSpec::upper_cased`] – the same zone with upper-case names (case-insensitivity dimension).
//! * [`query_bytes_class`], [`ask_raw`] – explicit QCLASS / raw response bytes.
//! * [`query_bytes`], [`ask`] – wire query -> `vsim::serve` (real `Catalog::handle_request`) -> `Message`.
//! * [`ref_rr`], [`ref_name`], [`ref_nsec`], [`ref_nsec3`], [`hname`] – conversions between hickory
//!   records and reference records.
//! * [`zone_key`], [`anchors`] – the fixed Ed25519 key of a zone (derived from the origin), trust anchors.
//! * [`Upstream`], [`validate`] – a scripted `DnsHandle` (virtual clock via `SimProvider`) and one
//!   lookup through the real `DnssecDnsHandle` on top of it.
//!
//! Nothing in here judges anything: oracles live in the checks and in `vref`.

use std::pin::Pin;

use std::sync::{Arc, Mutex};
use std::time::Duration;

use futures_util::{stream, Stream, StreamExt};
use hickory_net::dnssec::DnssecDnsHandle;
use hickory_net::xfer::{DnsHandle, Protocol};
use hickory_net::{DnsError, NetError};
use hickory_proto::dnssec::crypto::Ed25519SigningKey;
use hickory_proto::dnssec::rdata::{DNSSECRData, DNSKEY, DS, NSEC, NSEC3};
use hickory_proto::dnssec::{DigestType, DnssecSigner, Proof, PublicKeyBuf, SigningKey, TrustAnchors};
use hickory_proto::op::{DnsRequest, DnsRequestOptions, DnsResponse, Edns, Message, MessageType, OpCode, Query, ResponseCode};
use hickory_proto::rr::rdata::{A, CNAME, MX, NS, SOA, TXT};
use hickory_proto::rr::{Name, RData, Record, RecordType};
use hickory_server::dnssec::NxProofKind;
use hickory_server::store::in_memory::InMemoryZoneHandler;
use hickory_server::zone_handler::{AxfrPolicy, Catalog, ZoneType};
use serde_json::{json, Value};
use vref::zone as rz;
use vsim::SimProvider;

pub mod ctor;

pub const ORIGIN: &str = "z.";
pub const TTL: u32 = 300;

/// ASCII presentation form -> `Name`, case PRESERVED (`Name::from_str` goes through IDNA
/// processing, which folds ASCII letters to lower case).
pub fn hname(s: &str) -> Name {
    Name::from_ascii(s).unwrap()
}

// ------------------------------------------------------------------------------------------
// universe and zone grammar

/// U(d): all names `l1.….lk.<origin>` with 1 <= k <= d and li in {a, b, *}.
pub fn universe_under(origin: &str, depth: usize) -> Vec<String> {
    let mut out = vec![];
    let mut last = vec![origin.to_string()];
    for _ in 0..depth {
        let mut next = vec![];
        for base in &last {
            for l in ["a", "b", "*"] {
                next.push(format!("{l}.{base}"));
            }
        }
        out.extend(next.iter().cloned());
        last = next;
    }
    out
}

pub fn universe(depth: usize) -> Vec<String> {
    universe_under(ORIGIN, depth)
}

/// Node kinds of the zone grammar (DESIGN 5.1).
#[derive(Clone, Copy, PartialEq, Eq, Hash, Debug, PartialOrd, Ord)]
pub enum Kind {
    A,
    Txt,
    ATxt,
    /// MX 10 a.z.
    Mx,
    /// CNAME -> a.z.
    CnameA,
    /// CNAME -> b.z.
    CnameB,
    /// CNAME -> a.a.z.
    CnameAA,
    /// CNAME -> x.o. (out of zone)
    CnameOut,
    /// insecure delegation, NS -> ns.o.
    Ns,
    /// insecure delegation, NS -> a.<owner> with glue A at a.<owner>
    NsGlue,
    /// secure delegation, NS -> ns.o. plus DS
    NsDs,
}

pub const ALL_KINDS: [Kind; 11] = [
    Kind::A,
    Kind::Txt,
    Kind::ATxt,
    Kind::Mx,
    Kind::CnameA,
    Kind::CnameB,
    Kind::CnameAA,
    Kind::CnameOut,
    Kind::Ns,
    Kind::NsGlue,
    Kind::NsDs,
];

impl Kind {
    pub fn tag(self) -> &'static str {
        match self {
            Kind::A => "A",
            Kind::Txt => "TXT",
            Kind::ATxt => "A+TXT",
            Kind::Mx => "MX",
            Kind::CnameA => "CNAME>a.z.",
            Kind::CnameB => "CNAME>b.z.",
            Kind::CnameAA => "CNAME>a.a.z.",
            Kind::CnameOut => "CNAME>x.o.",
            Kind::Ns => "NS",
            Kind::NsGlue => "NS+glue",
            Kind::NsDs => "NS+DS",
        }
    }
    pub fn from_tag(s: &str) -> Option<Kind> {
        ALL_KINDS.iter().copied().find(|k| k.tag() == s)
    }
    pub fn is_delegation(self) -> bool {
        matches!(self, Kind::Ns | Kind::NsGlue | Kind::NsDs)
    }
}

/// One record of a zone in abstract form; interpreted twice (hickory `Record`, reference `Rr`).
#[derive(Clone, PartialEq, Eq, Debug, Hash)]
pub enum RecSpec {
    Soa,
    Ns(String),
    A(u8),
    Txt(String),
    Mx(String),
    Cname(String),
    /// DS of the fixed key of the zone named like the owner
    Ds,
}

#[derive(Clone, PartialEq, Eq, Debug, Hash)]
pub struct ZoneSpec {
    pub origin: String,
    pub owners: Vec<(String, Kind)>,
    /// raw extra records (parameter families outside the grammar, e.g. long CNAME chains)
    pub extra: Vec<(String, RecSpec)>,
}

impl std::fmt::Display for ZoneSpec {
    fn fmt(&self, f: &mut std::fmt::Formatter<'_>) -> std::fmt::Result {
        write!(f, "{}{{", self.origin)?;
        for (i, (o, k)) in self.owners.iter().enumerate() {
            if i > 0 {
                write!(f, ", ")?;
            }
            write!(f, "{o} {}", k.tag())?;
        }
        for (o, r) in &self.extra {
            write!(f, "; {o} {r:?}")?;
        }
        write!(f, "}}")
    }
}

impl ZoneSpec {
    pub fn new(origin: &str, owners: &[(&str, Kind)]) -> ZoneSpec {
        ZoneSpec { origin: origin.to_string(), owners: owners.iter().map(|(o, k)| (o.to_string(), *k)).collect(), extra: vec![] }
    }
    pub fn to_json(&self) -> Value {
        let extra: Vec<Value> = self
            .extra
            .iter()
            .map(|(o, r)| match r {
                RecSpec::Soa => json!([o, "SOA", ""]),
                RecSpec::Ns(t) => json!([o, "NS", t]),
                RecSpec::A(i) => json!([o, "A", i.to_string()]),
                RecSpec::Txt(t) => json!([o, "TXT", t]),
                RecSpec::Mx(t) => json!([o, "MX", t]),
                RecSpec::Cname(t) => json!([o, "CNAME", t]),
                RecSpec::Ds => json!([o, "DS", ""]),
            })
            .collect();
        json!({"origin": self.origin, "owners": self.owners.iter().map(|(o, k)| json!([o, k.tag()])).collect::<Vec<_>>(), "extra": extra})
    }
    pub fn from_json(v: &Value) -> Option<ZoneSpec> {
        let mut owners = vec![];
        for e in v["owners"].as_array()? {
            owners.push((e[0].as_str()?.to_string(), Kind::from_tag(e[1].as_str()?)?));
        }
        let mut extra = vec![];
        for e in v["extra"].as_array().map(|a| a.as_slice()).unwrap_or(&[]) {
            let (o, t, d) = (e[0].as_str()?.to_string(), e[1].as_str()?, e[2].as_str()?.to_string());
            let r = match t {
                "SOA" => RecSpec::Soa,
                "NS" => RecSpec::Ns(d),
                "A" => RecSpec::A(d.parse().ok()?),
                "TXT" => RecSpec::Txt(d),
                "MX" => RecSpec::Mx(d),
                "CNAME" => RecSpec::Cname(d),
                "DS" => RecSpec::Ds,
                _ => return None,
            };
            extra.push((o, r));
        }
        Some(ZoneSpec { origin: v["origin"].as_str()?.to_string(), owners, extra })
    }

    /// The same zone with the origin, every owner name and every in-zone RDATA name in UPPER case
    /// (names compare case-insensitively, RFC 1035 2.3.3; the reference model folds case).
    pub fn upper_cased(&self) -> ZoneSpec {
        let up_rec = |r: &RecSpec| match r {
            RecSpec::Ns(t) => RecSpec::Ns(t.to_ascii_uppercase()),
            RecSpec::Mx(t) => RecSpec::Mx(t.to_ascii_uppercase()),
            RecSpec::Cname(t) => RecSpec::Cname(t.to_ascii_uppercase()),
            o => o.clone(),
        };
        ZoneSpec {
            origin: self.origin.to_ascii_uppercase(),
            owners: self.owners.iter().map(|(o, k)| (o.to_ascii_uppercase(), *k)).collect(),
            extra: self.extra.iter().map(|(o, r)| (o.to_ascii_uppercase(), up_rec(r))).collect(),
        }
    }

    /// The flat record list. Owner i (1-based) gets RDATA that identifies it (A 10.0.0.i,
    /// TXT "t<i>") so that a response shows which owner's data it carries.
    pub fn records(&self) -> Vec<(String, RecSpec)> {
        let mut v = vec![(self.origin.clone(), RecSpec::Soa), (self.origin.clone(), RecSpec::Ns("ns.o.".into()))];
        for (i, (owner, kind)) in self.owners.iter().enumerate() {
            let i = (i + 1) as u8;
            let o = owner.clone();
            match kind {
                Kind::A => v.push((o, RecSpec::A(i))),
                Kind::Txt => v.push((o, RecSpec::Txt(format!("t{i}")))),
                Kind::ATxt => {
                    v.push((o.clone(), RecSpec::A(i)));
                    v.push((o, RecSpec::Txt(format!("t{i}"))));
                }
                Kind::Mx => v.push((o, RecSpec::Mx(format!("a.{}", self.origin)))),
                Kind::CnameA => v.push((o, RecSpec::Cname(format!("a.{}", self.origin)))),
                Kind::CnameB => v.push((o, RecSpec::Cname(format!("b.{}", self.origin)))),
                Kind::CnameAA => v.push((o, RecSpec::Cname(format!("a.a.{}", self.origin)))),
                Kind::CnameOut => v.push((o, RecSpec::Cname("x.o.".into()))),
                Kind::Ns => v.push((o, RecSpec::Ns("ns.o.".into()))),
                Kind::NsDs => {
                    v.push((o.clone(), RecSpec::Ns("ns.o.".into())));
                    v.push((o, RecSpec::Ds));
                }
                Kind::NsGlue => {
                    let glue = format!("a.{o}");
                    v.push((o, RecSpec::Ns(glue.clone())));
                    // if the glue name is itself an owner of the spec, that owner's kind decides
                    // what lives there (avoids A-next-to-CNAME conflicts)
                    if !self.owners.iter().any(|(x, _)| x.eq_ignore_ascii_case(&glue)) {
                        v.push((glue, RecSpec::A(100 + i)));
                    }
                }
            }
        }
        v.extend(self.extra.iter().cloned());
        v
    }

    /// The zone as the reference model sees it.
    pub fn reference(&self) -> rz::Zone {
        let mut z = rz::Zone::new(rz::Name::parse(&self.origin));
        for (owner, rec) in self.records() {
            let o = rz::Name::parse(&owner);
            let (t, rd) = match rec {
                RecSpec::Soa => (rz::T_SOA, rz::RData::Soa),
                RecSpec::Ns(t) => (rz::T_NS, rz::RData::Ns(rz::Name::parse(&t))),
                RecSpec::A(i) => (rz::T_A, rz::RData::A([10, 0, 0, i])),
                RecSpec::Txt(s) => (rz::T_TXT, rz::RData::Txt(s.into_bytes())),
                RecSpec::Mx(t) => (rz::T_MX, rz::RData::Mx(10, rz::Name::parse(&t))),
                RecSpec::Cname(t) => (rz::T_CNAME, rz::RData::Cname(rz::Name::parse(&t))),
                RecSpec::Ds => (rz::T_DS, rz::RData::Ds(ds_for(&owner).key_tag())),
            };
            z.add(&o, t, rd);
        }
        z
    }

    /// The same records as hickory `Record`s.
    pub fn hickory_records(&self) -> Vec<Record> {
        self.records()
            .into_iter()
            .map(|(owner, rec)| {
                let o = hname(&owner);
                let rd = match rec {
                    RecSpec::Soa => RData::SOA(SOA::new(hname("ns.o."), hname("h.o."), 1, 1, 1, 1, TTL)),
                    RecSpec::Ns(t) => RData::NS(NS(hname(&t))),
                    RecSpec::A(i) => RData::A(A::new(10, 0, 0, i)),
                    RecSpec::Txt(s) => RData::TXT(TXT::new(vec![s])),
                    RecSpec::Mx(t) => RData::MX(MX::new(10, hname(&t))),
                    RecSpec::Cname(t) => RData::CNAME(CNAME(hname(&t))),
                    RecSpec::Ds => RData::DNSSEC(DNSSECRData::DS(ds_for(&owner))),
                };
                Record::from_rdata(o, TTL, rd)
            })
            .collect()
    }

    /// Query names "in and around the zone": the apex, U(depth) below the origin, one name out
    /// of the zone, and a name below every delegation of the spec (already in U(depth) for
    /// shallow cuts).
    pub fn query_names(&self, depth: usize) -> Vec<String> {
        let mut v = vec![self.origin.clone()];
        v.extend(universe_under(&self.origin, depth));
        v.push("x.o.".to_string());
        for (o, k) in &self.owners {
            if k.is_delegation() {
                for l in ["a", "b"] {
                    let below = format!("{l}.{o}");
                    if !v.contains(&below) {
                        v.push(below);
                    }
                }
            }
        }
        v
    }
}

/// Every zone with at most `max_owners` owners drawn from `names` (strictly increasing index
/// order, so each owner set appears once) and kinds from `kinds`. NS kinds are not placed at
/// wildcard owners (leftmost label `*`): RFC 4592 4.2 leaves NS at a wildcard undefined, so no
/// oracle could judge it.
pub fn family(origin: &str, names: &[String], max_owners: usize, kinds: &[Kind]) -> Vec<ZoneSpec> {
    fn rec(
        origin: &str,
        names: &[String],
        kinds: &[Kind],
        start: usize,
        left: usize,
        cur: &mut Vec<(String, Kind)>,
        out: &mut Vec<ZoneSpec>,
    ) {
        out.push(ZoneSpec { origin: origin.to_string(), owners: cur.clone(), extra: vec![] });
        if left == 0 {
            return;
        }
        for i in start..names.len() {
            for k in kinds {
                if k.is_delegation() && names[i].starts_with("*.") {
                    continue;
                }
                cur.push((names[i].clone(), *k));
                rec(origin, names, kinds, i + 1, left - 1, cur, out);
                cur.pop();
            }
        }
    }
    let mut out = vec![];
    rec(origin, names, kinds, 0, max_owners, &mut vec![], &mut out);
    out
}

/// The single-branch universe of the deep slice: one branch three labels deep with a sibling at
/// the bottom and a wildcard at both inner levels.
pub const DEEP_BRANCH: [&str; 6] = ["a.z.", "a.a.z.", "a.a.a.z.", "b.a.a.z.", "*.a.z.", "*.a.a.z."];

/// Query names one label below the deep branch (added to the query set of every zone that has an
/// owner three labels below the origin).
pub const DEEP_QUERIES: [&str; 4] = ["a.a.a.a.z.", "b.a.a.a.z.", "*.a.a.a.z.", "a.b.a.a.z."];

/// Does the zone have an owner three or more labels below its origin?
pub fn is_deep(spec: &ZoneSpec) -> bool {
    let base = spec.origin.matches('.').count();
    spec.owners.iter().any(|(o, _)| o.matches('.').count() >= base + 3)
}

/// The deep slice: every zone over [`DEEP_BRANCH`] that has an owner three labels below the
/// origin, with <= 2 owners of `kinds` (delegation kinds are not placed at wildcards) and - if
/// `three` is given - with exactly 3 owners of those kinds. These are the smallest zones in which
/// an empty non-terminal has its first descendant two or more labels below it, an empty
/// non-terminal sits above another one, and a wildcard sits below an empty non-terminal - shapes
/// U(2) cannot express.
pub fn deep_family(kinds: &[Kind], three: Option<&[Kind]>) -> Vec<ZoneSpec> {
    let names: Vec<String> = DEEP_BRANCH.iter().map(|s| s.to_string()).collect();
    let mut out: Vec<ZoneSpec> = family(ORIGIN, &names, 2, kinds).into_iter().filter(is_deep).collect();
    if let Some(k3) = three {
        out.extend(family(ORIGIN, &names, 3, k3).into_iter().filter(|s| s.owners.len() == 3 && is_deep(s)));
    }
    out
}

// ------------------------------------------------------------------------------------------
// keys

/// The fixed Ed25519 key of the zone `origin` (seed derived from the origin's text, so every
/// run and every thread sees the same key; Ed25519 signatures are deterministic).
fn key_pair(origin: &str) -> Ed25519SigningKey {
    let mut seed = [0u8; 32];
    let mut h: u64 = 0xcbf29ce484222325;
    for (i, s) in seed.iter_mut().enumerate() {
        for b in origin.to_ascii_lowercase().bytes().chain([i as u8, 0x5a]) {
            h ^= b as u64;
            h = h.wrapping_mul(0x100000001b3);
        }
        *s = (h >> 24) as u8;
    }
    let kp = ring::signature::Ed25519KeyPair::from_seed_unchecked(&seed).expect("ed25519 seed");
    Ed25519SigningKey::from_ed25519(kp)
}

/// The zone's fixed key pair (for signers configured differently from [`zone_key`]).
pub fn key_pair_pub(origin: &str) -> Ed25519SigningKey {
    key_pair(origin)
}

pub fn zone_key(origin: &str) -> (DnssecSigner, PublicKeyBuf) {
    let k: Box<dyn SigningKey> = Box::new(key_pair(origin));
    let pk = k.to_public_key().unwrap();
    let signer = DnssecSigner::new(DNSKEY::from_key(&pk), k, hname(origin), Duration::from_secs(86400));
    (signer, pk)
}

/// DS (SHA-256) of the fixed key of the zone `origin`.
pub fn ds_for(origin: &str) -> DS {
    let (_, pk) = zone_key(origin);
    DS::from_key(&pk, &hname(origin), DigestType::SHA256).unwrap()
}

pub fn anchors(origins: &[&str]) -> Arc<TrustAnchors> {
    let mut a = TrustAnchors::empty();
    for o in origins {
        a.insert(&zone_key(o).1);
    }
    Arc::new(a)
}

// ------------------------------------------------------------------------------------------
// materialisation through the real server code

#[derive(Clone, PartialEq, Eq, Debug, Hash)]
pub enum Signing {
    Unsigned,
    Nsec,
    Nsec3 { iterations: u16, salt: Vec<u8>, opt_out: bool },
}

impl Signing {
    pub fn tag(&self) -> String {
        match self {
            Signing::Unsigned => "unsigned".into(),
            Signing::Nsec => "nsec".into(),
            Signing::Nsec3 { iterations, salt, opt_out } => format!(
                "nsec3:i{iterations}:s{}:{}",
                if salt.is_empty() { "-".to_string() } else { salt.iter().map(|b| format!("{b:02x}")).collect() },
                if *opt_out { "optout" } else { "noopt" }
            ),
        }
    }
    pub fn from_tag(s: &str) -> Option<Signing> {
        match s {
            "unsigned" => Some(Signing::Unsigned),
            "nsec" => Some(Signing::Nsec),
            _ => {
                let p: Vec<&str> = s.split(':').collect();
                if p.len() != 4 || p[0] != "nsec3" {
                    return None;
                }
                let iterations = p[1].strip_prefix('i')?.parse().ok()?;
                let st = p[2].strip_prefix('s')?;
                let salt = if st == "-" {
                    vec![]
                } else {
                    (0..st.len() / 2).map(|i| u8::from_str_radix(&st[2 * i..2 * i + 2], 16).unwrap_or(0)).collect()
                };
                Some(Signing::Nsec3 { iterations, salt, opt_out: p[3] == "optout" })
            }
        }
    }
    pub fn is_signed(&self) -> bool {
        !matches!(self, Signing::Unsigned)
    }
}

pub struct Built {
    pub spec: ZoneSpec,
    pub signing: Signing,
    /// every record of the zone after signing, RRSIGs included (RRSIGs follow their RRset)
    pub records: Vec<Record>,
    pub catalog: Catalog,
}

/// Build the zone with the real `InMemoryZoneHandler` (every `upsert_mut` must succeed) and,
/// if requested, sign it with the real `add_zone_signing_key_mut` + `secure_zone_mut` at the
/// current virtual time (`vsim::unix()`).
pub fn build(spec: &ZoneSpec, signing: &Signing) -> Result<Built, String> {
    build_front(spec, signing, Front::InMemory)
}

/// Which zone handler answers the catalog's requests.
#[derive(Clone, Copy, PartialEq, Eq, Debug)]
pub enum Front {
    /// the `InMemoryZoneHandler` itself
    InMemory,
    /// the same `InMemoryZoneHandler` wrapped in a `SqliteZoneHandler` (no journal, updates off):
    /// every lookup / NSEC / NSEC3 request is forwarded, so the answers must be byte-identical
    Sqlite,
}

/// As [`build`], with a choice of the front-end zone handler.
pub fn build_front(spec: &ZoneSpec, signing: &Signing, front: Front) -> Result<Built, String> {
    build_opts(spec, signing, &BuildOpts { front, ..BuildOpts::default() })
}

/// Every per-zone configuration knob the server-side code reads when it answers queries.
#[derive(Clone, Copy, Debug, PartialEq, Eq)]
pub struct BuildOpts {
    pub front: Front,
    /// `ZoneType::Secondary` instead of `Primary` (both are answered authoritatively)
    pub secondary: bool,
    /// `AxfrPolicy::AllowAll` instead of `Deny` (must not matter for ordinary queries)
    pub axfr_allow_all: bool,
    /// `SqliteZoneHandler::new(.., allow_update, ..)` (only with `Front::Sqlite`)
    pub allow_update: bool,
    /// `SqliteZoneHandler::new(.., is_dnssec_enabled)`; None = "the zone is signed"
    pub is_dnssec_enabled: Option<bool>,
}

impl Default for BuildOpts {
    fn default() -> Self {
        BuildOpts { front: Front::InMemory, secondary: false, axfr_allow_all: false, allow_update: false, is_dnssec_enabled: None }
    }
}

impl BuildOpts {
    pub fn tag(&self) -> String {
        format!(
            "{}{}{}{}{}",
            if self.front == Front::Sqlite { "sqlite" } else { "inmem" },
            if self.secondary { "+secondary" } else { "" },
            if self.axfr_allow_all { "+axfr-allow-all" } else { "" },
            if self.allow_update { "+allow-update" } else { "" },
            match self.is_dnssec_enabled {
                None => "",
                Some(true) => "+dnssec-enabled",
                Some(false) => "+dnssec-disabled",
            }
        )
    }
}

/// As [`build`], with every configuration knob explicit.
pub fn build_opts(spec: &ZoneSpec, signing: &Signing, opts: &BuildOpts) -> Result<Built, String> {
    let front = opts.front;
    let origin = hname(&spec.origin);
    let nx = match signing {
        Signing::Unsigned => None,
        Signing::Nsec => Some(NxProofKind::Nsec),
        Signing::Nsec3 { iterations, salt, opt_out } => Some(NxProofKind::Nsec3 {
            algorithm: Default::default(),
            salt: Arc::from(salt.clone().into_boxed_slice()),
            iterations: *iterations,
            opt_out: *opt_out,
        }),
    };
    let policy = if opts.axfr_allow_all { AxfrPolicy::AllowAll } else { AxfrPolicy::Deny };
    let mut zone = InMemoryZoneHandler::<SimProvider>::empty(origin.clone(), if opts.secondary { ZoneType::Secondary } else { ZoneType::Primary }, policy, nx);
    for r in spec.hickory_records() {
        let d = format!("{r}");
        if !zone.upsert_mut(r, 1) {
            return Err(format!("upsert refused: {d}"));
        }
    }
    if signing.is_signed() {
        let (signer, _) = zone_key(&spec.origin);
        zone.add_zone_signing_key_mut(signer).map_err(|e| e.to_string())?;
        zone.secure_zone_mut().map_err(|e| e.to_string())?;
    }
    let mut records = vec![];
    for rs in zone.records_get_mut().values() {
        for r in rs.records_with_rrsigs() {
            records.push(r.clone());
        }
    }
    let mut catalog = Catalog::new();
    match front {
        Front::InMemory => catalog.upsert(origin.into(), vec![Arc::new(zone)]),
        Front::Sqlite => {
            let wrapped = hickory_server::store::sqlite::SqliteZoneHandler::<SimProvider>::new(
                zone,
                policy,
                opts.allow_update,
                opts.is_dnssec_enabled.unwrap_or(signing.is_signed()),
            );
            catalog.upsert(origin.into(), vec![Arc::new(wrapped)])
        }
    }
    Ok(Built { spec: spec.clone(), signing: signing.clone(), records, catalog })
}

pub fn rrsig_covers(r: &Record) -> Option<RecordType> {
    match &r.data {
        RData::DNSSEC(DNSSECRData::RRSIG(s)) => Some(s.input().type_covered),
        _ => None,
    }
}

impl Built {
    /// The RRset (name, type) followed by the RRSIGs covering it.
    pub fn rrset_with_sigs(&self, name: &Name, t: RecordType) -> Vec<Record> {
        self.records
            .iter()
            .filter(|r| &r.name == name && (r.record_type() == t || rrsig_covers(r) == Some(t)))
            .cloned()
            .collect()
    }
    pub fn nsecs(&self) -> Vec<(Name, NSEC)> {
        self.records
            .iter()
            .filter_map(|r| match &r.data {
                RData::DNSSEC(DNSSECRData::NSEC(n)) => Some((r.name.clone(), n.clone())),
                _ => None,
            })
            .collect()
    }
    pub fn nsec3s(&self) -> Vec<(Name, NSEC3)> {
        self.records
            .iter()
            .filter_map(|r| match &r.data {
                RData::DNSSEC(DNSSECRData::NSEC3(n)) => Some((r.name.clone(), n.clone())),
                _ => None,
            })
            .collect()
    }
}

// ------------------------------------------------------------------------------------------
// queries

pub fn rtype(t: u16) -> RecordType {
    RecordType::from(t)
}

/// A standard query in wire form; with `dnssec_ok` an OPT record (payload 4096, DO=1) is added.
pub fn query_bytes(qname: &str, qtype: u16, dnssec_ok: bool) -> Vec<u8> {
    let mut m = Message::new(0x2a2a, MessageType::Query, OpCode::Query);
    m.add_query(Query::new(hname(qname), rtype(qtype)));
    if dnssec_ok {
        let mut e = Edns::new();
        e.set_max_payload(4096);
        e.enable_dnssec();
        m.set_edns(e);
    }
    m.to_vec().unwrap()
}

/// The request-side knobs: header flags and the OPT record.
#[derive(Clone, Copy, Debug, PartialEq, Eq)]
pub struct QueryShape {
    /// an OPT record is present
    pub edns: bool,
    pub do_bit: bool,
    pub payload: u16,
    pub rd: bool,
    pub cd: bool,
    pub ad: bool,
}

impl QueryShape {
    pub const PLAIN: QueryShape = QueryShape { edns: false, do_bit: false, payload: 4096, rd: false, cd: false, ad: false };
    pub const DO: QueryShape = QueryShape { edns: true, do_bit: true, payload: 4096, rd: false, cd: false, ad: false };
    pub fn tag(&self) -> String {
        format!(
            "{}{}{}{}",
            if !self.edns { "noedns".to_string() } else { format!("edns{}:{}", self.payload, if self.do_bit { "do=1" } else { "do=0" }) },
            if self.rd { "+rd" } else { "" },
            if self.cd { "+cd" } else { "" },
            if self.ad { "+ad" } else { "" }
        )
    }
}

/// A standard query with explicit header flags and OPT record.
pub fn query_bytes_shape(qname: &str, qtype: u16, shape: &QueryShape) -> Vec<u8> {
    let mut m = Message::new(0x2a2a, MessageType::Query, OpCode::Query);
    m.add_query(Query::new(hname(qname), rtype(qtype)));
    m.metadata.recursion_desired = shape.rd;
    m.metadata.checking_disabled = shape.cd;
    m.metadata.authentic_data = shape.ad;
    if shape.edns {
        let mut e = Edns::new();
        e.set_max_payload(shape.payload.max(512));
        if shape.do_bit {
            e.enable_dnssec();
        }
        m.set_edns(e);
    }
    m.to_vec().unwrap()
}

/// A standard query with an explicit QCLASS (1 = IN, 3 = CH, 255 = ANY), wire form.
pub fn query_bytes_class(qname: &str, qtype: u16, qclass: u16, dnssec_ok: bool) -> Vec<u8> {
    let mut m = Message::new(0x2a2a, MessageType::Query, OpCode::Query);
    let mut q = Query::new(hname(qname), rtype(qtype));
    q.query_class = hickory_proto::rr::DNSClass::from(qclass);
    m.add_query(q);
    if dnssec_ok {
        let mut e = Edns::new();
        e.set_max_payload(4096);
        e.enable_dnssec();
        m.set_edns(e);
    }
    m.to_vec().unwrap()
}

/// Wire query -> real `Catalog::handle_request` -> the raw response bytes (exactly one expected).
pub fn ask_raw(rt: &tokio::runtime::Runtime, catalog: &Catalog, query: &[u8]) -> Result<Vec<u8>, String> {
    let mut out = rt.block_on(vsim::serve(catalog, query, Protocol::Udp)).ok_or("request did not parse")?;
    if out.len() != 1 {
        return Err(format!("{} responses", out.len()));
    }
    Ok(out.remove(0))
}

/// Wire query -> real `Catalog::handle_request` -> decoded response (exactly one expected).
pub fn ask(rt: &tokio::runtime::Runtime, catalog: &Catalog, qname: &str, qtype: u16, dnssec_ok: bool) -> Result<Message, String> {
    let q = query_bytes(qname, qtype, dnssec_ok);
    let out = rt.block_on(vsim::serve(catalog, &q, Protocol::Udp)).ok_or("request did not parse")?;
    if out.len() != 1 {
        return Err(format!("{} responses", out.len()));
    }
    Message::from_vec(&out[0]).map_err(|e| format!("response undecodable: {e}"))
}

// ------------------------------------------------------------------------------------------
// hickory -> reference conversions

pub fn ref_name(n: &Name) -> rz::Name {
    rz::Name::from_labels(n.iter().map(|l| l.to_vec()))
}

pub fn ref_rr(r: &Record) -> rz::Rr {
    let t: u16 = r.record_type().into();
    let rd = match &r.data {
        RData::A(a) => rz::RData::A(a.0.octets()),
        RData::NS(n) => rz::RData::Ns(ref_name(&n.0)),
        RData::CNAME(c) => rz::RData::Cname(ref_name(&c.0)),
        RData::MX(m) => rz::RData::Mx(m.preference, ref_name(&m.exchange)),
        RData::TXT(t) => rz::RData::Txt(t.txt_data.iter().flat_map(|s| s.iter().copied()).collect()),
        RData::SOA(_) => rz::RData::Soa,
        RData::DNSSEC(DNSSECRData::DS(d)) => rz::RData::Ds(d.key_tag()),
        o => rz::RData::Other(format!("{o}")),
    };
    rz::Rr { owner: ref_name(&r.name), rtype: t, rdata: rd }
}

/// A genuine NSEC record in the reference model's abstract form (`zone` = apex of its zone).
pub fn ref_nsec(zone: &Name, owner: &Name, nsec: &NSEC) -> vref::denial::NsecRec {
    vref::denial::NsecRec {
        zone: ref_name(zone),
        owner: ref_name(owner),
        next: ref_name(nsec.next_domain_name()),
        types: nsec.type_set().iter().map(u16::from).collect(),
    }
}

/// A genuine NSEC3 record in abstract form; None if the first owner label is not base32hex.
pub fn ref_nsec3(zone: &Name, owner: &Name, n3: &NSEC3) -> Option<vref::denial::Nsec3Rec> {
    let first = owner.iter().next()?;
    let hash = vref::denial::base32hex_decode(std::str::from_utf8(first).ok()?)?;
    Some(vref::denial::Nsec3Rec {
        zone: ref_name(zone),
        hash,
        next: n3.next_hashed_owner_name().to_vec(),
        types: n3.type_set().iter().map(u16::from).collect(),
        opt_out: n3.opt_out(),
        iterations: n3.iterations(),
        salt: n3.salt().to_vec(),
    })
}

// ------------------------------------------------------------------------------------------
// the real validator over a scripted upstream

type Script = dyn Fn(&Query) -> Option<Message> + Send + Sync;

/// A scripted upstream: answers every request from a closure (None => empty NOERROR response).
/// Its runtime is `SimProvider`, so the validator's clock is the virtual wall clock.
#[derive(Clone)]
pub struct Upstream {
    pub script: Arc<Script>,
    pub log: Arc<Mutex<Vec<String>>>,
}

impl Upstream {
    pub fn new(f: impl Fn(&Query) -> Option<Message> + Send + Sync + 'static) -> Upstream {
        Upstream { script: Arc::new(f), log: Default::default() }
    }
}

impl DnsHandle for Upstream {
    type Response = Pin<Box<dyn Stream<Item = Result<DnsResponse, NetError>> + Send>>;
    type Runtime = SimProvider;
    fn send(&self, request: DnsRequest) -> Self::Response {
        let q = request.queries[0].clone();
        self.log.lock().unwrap().push(format!("{} {}", q.name, q.query_type));
        let mut m = match (self.script)(&q) {
            Some(m) => m,
            None => {
                let mut m = Message::new(0, MessageType::Response, OpCode::Query);
                m.add_query(q.clone());
                m
            }
        };
        m.metadata.id = request.id;
        m.metadata.message_type = MessageType::Response;
        Box::pin(stream::once(async move { DnsResponse::from_message(m).map_err(NetError::from) }))
    }
}

/// Outcome of one lookup through the real `DnssecDnsHandle`.
#[derive(Clone, Debug, PartialEq, Eq)]
pub enum E2e {
    /// the response came back; proofs of the answer and authority records as marked by the validator
    Accepted { rcode: ResponseCode, answers: Vec<(RecordType, Proof)>, authorities: Vec<(RecordType, Proof)> },
    /// rejected with `DnsError::Nsec { proof }`
    NsecRejected(Proof),
    /// any other error
    Error(String),
}

impl E2e {
    /// "Accepted as Secure": the response was returned and every authority and answer record
    /// carries Proof::Secure (and there is at least one record).
    pub fn is_secure(&self) -> bool {
        match self {
            E2e::Accepted { answers, authorities, .. } => {
                (!answers.is_empty() || !authorities.is_empty())
                    && answers.iter().chain(authorities.iter()).all(|(_, p)| *p == Proof::Secure)
            }
            _ => false,
        }
    }
    pub fn class(&self) -> String {
        match self {
            E2e::Accepted { .. } if self.is_secure() => "secure".into(),
            E2e::Accepted { answers, authorities, .. } => {
                let mut ps: Vec<String> =
                    answers.iter().chain(authorities.iter()).map(|(_, p)| format!("{p:?}").to_lowercase()).collect();
                ps.sort();
                ps.dedup();
                format!("accepted[{}]", ps.join("+"))
            }
            E2e::NsecRejected(p) => format!("nsec-{}", format!("{p:?}").to_lowercase()),
            E2e::Error(e) => format!("error:{e}"),
        }
    }
}

/// One lookup of `query` through a fresh-or-shared real `DnssecDnsHandle` over `upstream`.
pub fn validate_with(
    rt: &tokio::runtime::Runtime,
    handle: &DnssecDnsHandle<Upstream>,
    query: Query,
) -> E2e {
    let r = rt.block_on(async { handle.lookup(query, DnsRequestOptions::default()).next().await });
    match r {
        None => E2e::Error("no response".into()),
        Some(Ok(resp)) => E2e::Accepted {
            rcode: resp.response_code,
            answers: resp.answers.iter().map(|r| (r.record_type(), r.proof)).collect(),
            authorities: resp.authorities.iter().map(|r| (r.record_type(), r.proof)).collect(),
        },
        Some(Err(NetError::Dns(DnsError::Nsec { proof, .. }))) => E2e::NsecRejected(proof),
        Some(Err(e)) => {
            let s = e.to_string();
            E2e::Error(s.chars().take(60).collect())
        }
    }
}

pub fn validator(upstream: Upstream, anchors: Arc<TrustAnchors>, limits: Option<(u16, u16)>) -> DnssecDnsHandle<Upstream> {
    let h = DnssecDnsHandle::with_trust_anchor(upstream, anchors);
    match limits {
        Some((soft, hard)) => h.nsec3_iteration_limits(Some(soft), Some(hard)),
        None => h,
    }
}

pub fn validate(
    rt: &tokio::runtime::Runtime,
    upstream: Upstream,
    anchors: Arc<TrustAnchors>,
    query: Query,
    limits: Option<(u16, u16)>,
) -> E2e {
    validate_with(rt, &validator(upstream, anchors, limits), query)
}
