// Spike S9: authoritative lookup probes (RFC 4592 blocking, ENT, cuts) through Catalog
use std::{net::SocketAddr, str::FromStr, sync::Arc};
use futures_util::StreamExt;
use hickory_net::{BufDnsStreamHandle, runtime::{TokioRuntimeProvider, TokioTime}, xfer::Protocol};
use hickory_proto::{op::{Message, MessageType, OpCode, Query}, rr::{Name, RData, Record, RecordType, rdata::{A, CNAME, NS, SOA, TXT}}};
use hickory_server::{server::{Request, RequestHandler, ResponseHandle}, store::in_memory::InMemoryZoneHandler, zone_handler::{AxfrPolicy, Catalog, ZoneType}};
fn n(s: &str) -> Name { Name::from_str(s).unwrap() }
async fn ask(catalog: &Catalog, qn: &str, qt: RecordType, expect: &str) {
    let src: SocketAddr = "192.0.2.1:5353".parse().unwrap();
    let mut m = Message::new(1, MessageType::Query, OpCode::Query); m.add_query(Query::new(n(qn), qt));
    let (handle, mut rx) = BufDnsStreamHandle::new(src);
    let req = Request::from_bytes(m.to_vec().unwrap(), src, Protocol::Udp).unwrap();
    catalog.handle_request::<_, TokioTime>(&req, ResponseHandle::new(src, handle, Protocol::Udp)).await;
    let r = rx.next().await.unwrap().to_message().unwrap();
    println!("{qn:12} {qt:5} -> {:?} aa={} an={:?} ns={:?}   [RFC: {expect}]", r.metadata.response_code, r.metadata.authoritative,
        r.answers.iter().map(|r| format!("{} {} {}", r.name, r.record_type(), r.data)).collect::<Vec<_>>(),
        r.authorities.iter().map(|r| format!("{} {}", r.name, r.record_type())).collect::<Vec<_>>());
}
#[tokio::main(flavor = "current_thread")]
async fn main() {
    let origin = n("z.");
    let mut zone = InMemoryZoneHandler::<TokioRuntimeProvider>::empty(origin.clone(), ZoneType::Primary, AxfrPolicy::Deny, None);
    let mut add = |r: Record| { assert!(zone.upsert_mut(r, 1)); };
    add(Record::from_rdata(origin.clone(), 300, RData::SOA(SOA::new(n("ns.o."), n("h.o."), 1, 1, 1, 1, 300))));
    add(Record::from_rdata(origin.clone(), 300, RData::NS(NS(n("ns.o.")))));
    add(Record::from_rdata(n("*.z."), 300, RData::TXT(TXT::new(vec!["wild".into()]))));
    add(Record::from_rdata(n("a.b.z."), 300, RData::A(A::new(10,0,0,1))));           // makes b.z. an empty non-terminal
    add(Record::from_rdata(n("h.z."), 300, RData::A(A::new(10,0,0,2))));
    add(Record::from_rdata(n("sub.*.z."), 300, RData::TXT(TXT::new(vec!["notwild".into()]))));
    add(Record::from_rdata(n("d.z."), 300, RData::NS(NS(n("ns.d.z.")))));             // delegation
    add(Record::from_rdata(n("ns.d.z."), 300, RData::A(A::new(10,0,0,53))));          // glue
    add(Record::from_rdata(n("*.d.z."), 300, RData::TXT(TXT::new(vec!["below-cut".into()]))));
    add(Record::from_rdata(n("c.z."), 300, RData::CNAME(CNAME(n("h.z.")))));
    add(Record::from_rdata(n("c2.z."), 300, RData::CNAME(CNAME(n("x.d.z.")))));
    let mut catalog = Catalog::new(); catalog.upsert(origin.clone().into(), vec![Arc::new(zone)]);
    ask(&catalog, "q.z.", RecordType::TXT, "synth from *.z.").await;
    ask(&catalog, "q.z.", RecordType::A, "NODATA (wildcard exists, no A)").await;
    ask(&catalog, "b.z.", RecordType::TXT, "NODATA (b.z. is an ENT; no synthesis)").await;
    ask(&catalog, "x.b.z.", RecordType::TXT, "NXDOMAIN (closest encloser b.z. has no wildcard; *.z. blocked)").await;
    ask(&catalog, "h.z.", RecordType::TXT, "NODATA (h.z. exists; wildcard does not apply)").await;
    ask(&catalog, "x.h.z.", RecordType::TXT, "NXDOMAIN (closest encloser h.z.; *.z. blocked)").await;
    ask(&catalog, "ghost.*.z.", RecordType::TXT, "NXDOMAIN (*.z. exists, blocks itself)").await;
    ask(&catalog, "x.d.z.", RecordType::A, "referral to d.z.").await;
    ask(&catalog, "x.d.z.", RecordType::TXT, "referral to d.z. (never *.d.z. data)").await;
    ask(&catalog, "ns.d.z.", RecordType::A, "referral to d.z. (glue is not authoritative)").await;
    ask(&catalog, "d.z.", RecordType::A, "referral to d.z.").await;
    ask(&catalog, "c.z.", RecordType::A, "CNAME + h.z. A").await;
    ask(&catalog, "c2.z.", RecordType::A, "CNAME, then stop at the cut (optionally referral)").await;
    ask(&catalog, "nope.o.", RecordType::A, "REFUSED (not our zone)").await;
}
