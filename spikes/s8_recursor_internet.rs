// Spike S8: Recursor over a simulated internet (scripted ConnectionProvider), hostile leaf server.
use std::{future::Future, net::IpAddr, pin::Pin, str::FromStr, sync::{Arc, Mutex}, time::{Duration, Instant}};
use futures_util::{Stream, stream};
use hickory_net::{NetError, runtime::TokioRuntimeProvider, xfer::DnsHandle};
use hickory_proto::{op::{DnsRequest, DnsResponse, Message, MessageType, OpCode, Query, ResponseCode}, rr::{Name, RData, Record, RecordType, rdata::{A, NS, SOA}}};
use hickory_resolver::{ConnectionProvider, PoolContext, config::ConnectionConfig, recursor::{Recursor, RecursorOptions}};

fn n(s: &str) -> Name { Name::from_str(s).unwrap() }
fn ip(last: u8) -> IpAddr { IpAddr::from([198, 51, 100, last]) }
fn a(name: &str, last: [u8; 4]) -> Record { Record::from_rdata(n(name), 300, RData::A(A::new(last[0], last[1], last[2], last[3]))) }
fn ns(zone: &str, host: &str) -> Record { Record::from_rdata(n(zone), 300, RData::NS(NS(n(host)))) }
type Answer = Arc<dyn Fn(IpAddr, &Query) -> Message + Send + Sync>;
#[derive(Clone)] struct Net { f: Answer, log: Arc<Mutex<Vec<String>>>, rt: TokioRuntimeProvider }
#[derive(Clone)] struct Conn { net: Net, ip: IpAddr }
impl DnsHandle for Conn {
    type Response = Pin<Box<dyn Stream<Item = Result<DnsResponse, NetError>> + Send>>;
    type Runtime = TokioRuntimeProvider;
    fn send(&self, request: DnsRequest) -> Self::Response {
        let q = request.queries[0].clone();
        self.net.log.lock().unwrap().push(format!("{} <- {} {}", self.ip, q.name, q.query_type));
        let mut m = (self.net.f)(self.ip, &q); m.metadata.id = request.id;
        Box::pin(stream::once(async move { tokio::time::sleep(Duration::from_millis(5)).await; DnsResponse::from_message(m).map_err(NetError::from) }))
    }
}
impl ConnectionProvider for Net {
    type Conn = Conn; type FutureConn = Pin<Box<dyn Future<Output = Result<Conn, NetError>> + Send>>; type RuntimeProvider = TokioRuntimeProvider;
    fn new_connection(&self, ip: IpAddr, _c: &ConnectionConfig, _cx: &PoolContext) -> Result<Self::FutureConn, NetError> { let net = self.clone(); Ok(Box::pin(async move { Ok(Conn { net, ip }) })) }
    fn runtime_provider(&self) -> &TokioRuntimeProvider { &self.rt }
}
fn resp(q: &Query, aa: bool) -> Message { let mut m = Message::new(0, MessageType::Response, OpCode::Query); m.add_query(q.clone()); m.metadata.authoritative = aa; m }
// root=.1, t.=.2, l.t.=.3 (hostile), o.=.4, v.o.=.5
fn internet(hostile: bool) -> Answer {
    Arc::new(move |server, q| {
        let under = |z: &str| n(z).zone_of(&q.name);
        let last = match server { IpAddr::V4(v) => v.octets()[3], _ => 0 };
        let mut m;
        match last {
            1 => { m = resp(q, false); if under("t.") { m.add_authority(ns("t.", "ns.t.")); m.add_additional(a("ns.t.", [198,51,100,2])); } else if under("o.") { m.add_authority(ns("o.", "ns.o.")); m.add_additional(a("ns.o.", [198,51,100,4])); } }
            2 => { m = resp(q, false); if under("l.t.") { m.add_authority(ns("l.t.", "ns.l.t.")); m.add_additional(a("ns.l.t.", [198,51,100,3])); } else { m.metadata.authoritative = true; if q.name == n("t.") && q.query_type == RecordType::NS { m.add_answer(ns("t.", "ns.t.")); } else if q.name == n("ns.t.") && q.query_type == RecordType::A { m.add_answer(a("ns.t.", [198,51,100,2])); } } }
            3 => { m = resp(q, true);
                   if q.name == n("www.l.t.") && q.query_type == RecordType::A { m.add_answer(a("www.l.t.", [10,0,0,80])); }
                   else if q.name == n("l.t.") && q.query_type == RecordType::NS { m.add_answer(ns("l.t.", "ns.l.t.")); }
                   else if q.name == n("ns.l.t.") && q.query_type == RecordType::A { m.add_answer(a("ns.l.t.", [198,51,100,3])); }
                   else { m.add_authority(Record::from_rdata(n("l.t."), 60, RData::SOA(SOA::new(n("ns.l.t."), n("h.l.t."), 1, 1, 1, 1, 60)))); }
                   if hostile { m.add_answer(a("www.v.o.", [6,6,6,1])); m.add_authority(ns("o.", "evil.l.t.")); m.add_authority(ns("v.o.", "evil.l.t.")); m.add_additional(a("evil.l.t.", [6,6,6,2])); m.add_additional(a("www.v.o.", [6,6,6,3])); m.add_additional(a("ns.o.", [6,6,6,4])); } }
            4 => { m = resp(q, false); if under("v.o.") { m.add_authority(ns("v.o.", "ns.v.o.")); m.add_additional(a("ns.v.o.", [198,51,100,5])); } else { m.metadata.authoritative = true; if q.name == n("o.") && q.query_type == RecordType::NS { m.add_answer(ns("o.", "ns.o.")); } } }
            5 => { m = resp(q, true); if q.name == n("www.v.o.") && q.query_type == RecordType::A { m.add_answer(a("www.v.o.", [10,0,0,99])); } else if q.name == n("v.o.") && q.query_type == RecordType::NS { m.add_answer(ns("v.o.", "ns.v.o.")); } else { m.add_authority(Record::from_rdata(n("v.o."), 60, RData::SOA(SOA::new(n("ns.v.o."), n("h.v.o."), 1, 1, 1, 1, 60)))); } }
            _ => { m = resp(q, false); m.metadata.response_code = ResponseCode::Refused; }
        }
        m
    })
}
#[tokio::main(flavor = "current_thread", start_paused = true)]
async fn main() {
    for hostile in [false, true] {
        let net = Net { f: internet(hostile), log: Default::default(), rt: TokioRuntimeProvider::new() };
        let opts = RecursorOptions { deny_server: vec![], recursion_limit: 8, ns_recursion_limit: 8, ..RecursorOptions::default() };
        let rec = Recursor::with_options(&[ip(1)], opts, net.clone()).unwrap();
        for qn in ["www.l.t.", "www.v.o."] {
            let r = rec.resolve(Query::new(n(qn), RecordType::A), Instant::now(), false).await;
            match r { Ok(m) => println!("hostile={hostile} {qn}: answers={:?} auth={:?} add={:?}", m.answers.iter().map(|r| format!("{} {}", r.name, r.data)).collect::<Vec<_>>(), m.authorities.iter().map(|r| format!("{} {}", r.name, r.data)).collect::<Vec<_>>(), m.additionals.iter().map(|r| format!("{} {}", r.name, r.data)).collect::<Vec<_>>()), Err(e) => println!("hostile={hostile} {qn}: Err({e})") }
        }
        let log = net.log.lock().unwrap();
        println!("   exchanges({}): {:?}", log.len(), log);
        println!("   contacted 6.6.6.x: {}", log.iter().any(|l| l.starts_with("6.6.6")));
    }
}
