// Spike S3: NameServerPool over a scripted ConnectionProvider under paused tokio time
use std::{collections::HashMap, future::Future, net::IpAddr, pin::Pin, sync::{Arc, Mutex}, time::Duration};
use futures_util::{Stream, StreamExt, stream};
use hickory_net::{NetError, runtime::TokioRuntimeProvider, xfer::{DnsHandle, Protocol}};
use hickory_proto::{op::{DnsRequest, DnsRequestOptions, DnsResponse, Message, MessageType, OpCode, Query}, rr::{Name, RData, Record, RecordType, rdata::A}};
use hickory_resolver::{ConnectionProvider, NameServer, NameServerPool, PoolContext, TlsConfig, config::{ConnectionConfig, NameServerConfig, ProtocolConfig, ResolverOpts, ServerOrderingStrategy}};

#[derive(Clone, Copy, Debug)]
enum Beh { Answer(u64), Silent, IoErr(u64), Truncated(u64) }
#[derive(Clone)]
struct Net { beh: Arc<HashMap<(IpAddr, bool), Beh>>, log: Arc<Mutex<Vec<String>>>, rt: TokioRuntimeProvider }
#[derive(Clone)]
struct Conn { net: Net, ip: IpAddr, tcp: bool }
impl DnsHandle for Conn {
    type Response = Pin<Box<dyn Stream<Item = Result<DnsResponse, NetError>> + Send>>;
    type Runtime = TokioRuntimeProvider;
    fn send(&self, request: DnsRequest) -> Self::Response {
        let beh = self.net.beh[&(self.ip, self.tcp)];
        let t0 = tokio::time::Instant::now();
        self.net.log.lock().unwrap().push(format!("{}{} {:?}", self.ip, if self.tcp {"/tcp"} else {"/udp"}, beh));
        let (ip, q, id) = (self.ip, request.queries[0].clone(), request.id);
        Box::pin(stream::once(async move {
            let _ = t0;
            match beh {
                Beh::Silent => { tokio::time::sleep(Duration::from_millis(1000)).await; Err(NetError::Timeout) }
                Beh::IoErr(ms) => { tokio::time::sleep(Duration::from_millis(ms)).await; Err(NetError::from(std::io::Error::new(std::io::ErrorKind::ConnectionReset, "rst"))) }
                Beh::Answer(ms) | Beh::Truncated(ms) => {
                    tokio::time::sleep(Duration::from_millis(ms)).await;
                    let mut m = Message::new(id, MessageType::Response, OpCode::Query); m.add_query(q.clone());
                    if let Beh::Truncated(_) = beh { m.metadata.truncation = true; }
                    else { m.add_answer(Record::from_rdata(q.name.clone(), 60, RData::A(A::new(10,0,0, match ip { IpAddr::V4(v) => v.octets()[3], _ => 0 })))); }
                    DnsResponse::from_message(m).map_err(NetError::from)
                }
            }
        }))
    }
}
impl ConnectionProvider for Net {
    type Conn = Conn; type FutureConn = Pin<Box<dyn Future<Output = Result<Conn, NetError>> + Send>>; type RuntimeProvider = TokioRuntimeProvider;
    fn new_connection(&self, ip: IpAddr, config: &ConnectionConfig, _cx: &PoolContext) -> Result<Self::FutureConn, NetError> {
        let tcp = matches!(config.protocol, ProtocolConfig::Tcp); let net = self.clone();
        Ok(Box::pin(async move { Ok(Conn { net, ip, tcp }) }))
    }
    fn runtime_provider(&self) -> &TokioRuntimeProvider { &self.rt }
}

async fn run(label: &str, servers: Vec<(u8, Beh, Beh)>, conc: usize) {
    let mut beh = HashMap::new(); let mut ips = vec![];
    for (n, u, t) in &servers { let ip = IpAddr::from([192,0,2,*n]); beh.insert((ip, false), *u); beh.insert((ip, true), *t); ips.push(ip); }
    let net = Net { beh: Arc::new(beh), log: Default::default(), rt: TokioRuntimeProvider::new() };
    let mut opts = ResolverOpts::default();
    opts.timeout = Duration::from_millis(1000); opts.num_concurrent_reqs = conc; opts.server_ordering_strategy = ServerOrderingStrategy::UserProvidedOrder;
    let cx = Arc::new(PoolContext::new(opts.clone(), TlsConfig::new().unwrap()));
    let nss = ips.iter().map(|ip| Arc::new(NameServer::new([], NameServerConfig::udp_and_tcp(*ip), &opts, net.clone()))).collect();
    let pool = NameServerPool::from_nameservers(nss, cx);
    let t0 = tokio::time::Instant::now();
    let q = Query::new(Name::from_ascii("www.example.").unwrap(), RecordType::A);
    let mut s1 = pool.lookup(q.clone(), DnsRequestOptions::default());
    let mut s2 = pool.lookup(q.clone(), DnsRequestOptions::default());
    let (r1, r2) = tokio::join!(s1.next(), s2.next());
    let dt = t0.elapsed();
    let show = |r: Option<Result<DnsResponse, NetError>>| match r.unwrap() { Ok(m) => format!("Ok({:?})", m.answers.iter().map(|r| r.data.to_string()).collect::<Vec<_>>()), Err(e) => format!("Err({e})") };
    println!("{label}: virtual elapsed={dt:?} r1={} r2={}\n    exchanges={:?}", show(r1), show(r2), net.log.lock().unwrap());
}

#[tokio::main(flavor = "current_thread", start_paused = true)]
async fn main() {
    run("healthy", vec![(1, Beh::Answer(10), Beh::Answer(10))], 1).await;
    run("silent then healthy", vec![(1, Beh::Silent, Beh::Silent), (2, Beh::Answer(10), Beh::Answer(10))], 1).await;
    run("truncated -> tcp", vec![(1, Beh::Truncated(10), Beh::Answer(20))], 1).await;
    run("ioerr(600ms) then silent", vec![(1, Beh::IoErr(600), Beh::IoErr(600)), (2, Beh::Silent, Beh::Silent)], 1).await;
    run("2 parallel: silent + healthy", vec![(1, Beh::Silent, Beh::Silent), (2, Beh::Answer(30), Beh::Answer(30))], 2).await;
}
