// Spike S12: ResponseCache with a serde-built TtlConfig; explicit clock
use std::{str::FromStr, time::{Duration, Instant}};
use hickory_proto::{op::{Message, OpCode, Query}, rr::{Name, RData, Record, RecordType, rdata::{A, CNAME}}};
use hickory_resolver::{ResponseCache, TtlConfig};
fn main() {
    let cfg: TtlConfig = serde_json::from_str(r#"{"default": {"positive_min_ttl": 2, "positive_max_ttl": 10}, "CNAME": {"positive_min_ttl": 50}}"#).expect("ttl config");
    println!("A bounds {:?}  CNAME bounds {:?}", cfg.positive_response_ttl_bounds(RecordType::A), cfg.positive_response_ttl_bounds(RecordType::CNAME));
    let cache = ResponseCache::new(100, cfg);
    let base = Instant::now();
    let q = Query::new(Name::from_str("w.example.").unwrap(), RecordType::A);
    let mut m = Message::response(0, OpCode::Query);
    m.add_answer(Record::from_rdata(Name::from_str("w.example.").unwrap(), 5, RData::CNAME(CNAME(Name::from_str("t.example.").unwrap()))));
    m.add_answer(Record::from_rdata(Name::from_str("t.example.").unwrap(), 1, RData::A(A::new(10,0,0,1))));
    cache.insert(q.clone(), Ok(m), base);
    for ms in [0u64, 999, 1000, 2000, 2001, 9999, 10000, 10001, 49000] {
        let r = cache.get(&q, base + Duration::from_millis(ms));
        println!("t+{ms}ms -> {}", match r { None => "miss".to_string(), Some(Ok(m)) => format!("hit ttls={:?}", m.answers.iter().map(|r| (r.record_type().to_string(), r.ttl)).collect::<Vec<_>>()), Some(Err(e)) => format!("err {e}") });
    }
    let bad: Result<TtlConfig, _> = serde_json::from_str(r#"{"default": {"positive_min_ttl": 9, "positive_max_ttl": 3}}"#);
    let badc = bad.unwrap(); let r = std::panic::catch_unwind(std::panic::AssertUnwindSafe(|| { let c = ResponseCache::new(10, badc); let mut m = Message::response(0, OpCode::Query); m.add_answer(Record::from_rdata(Name::from_str("w.example.").unwrap(), 5, RData::A(A::new(1,1,1,1)))); c.insert(Query::new(Name::from_str("w.example.").unwrap(), RecordType::A), Ok(m), Instant::now()); }));
    println!("min>max insert: {}", if r.is_err() { "PANIC" } else { "ok" });
}
