// Spike S5: qname containing a compression pointer into the header; raw-byte question echo
use std::{net::SocketAddr, time::Duration};
use futures_util::StreamExt;
use hickory_net::{BufDnsStreamHandle, runtime::TokioTime, xfer::Protocol};
use hickory_proto::op::Message;
use hickory_server::{server::{Request, RequestHandler, ResponseHandle}, zone_handler::Catalog};

#[tokio::main(flavor = "current_thread", start_paused = true)]
async fn main() {
    let catalog = Catalog::new();
    for ptr in [2u8, 4, 5] {
        // id=0x1234, flags=0x0100 (RD), QD=1, question = pointer to header offset `ptr`, type A, class IN
        let bytes = vec![0x12, 0x34, 0x01, 0x00, 0, 1, 0, 0, 0, 0, 0, 0, 0xC0, ptr, 0, 1, 0, 1];
        let reqmsg = Message::from_vec(&bytes);
        println!("ptr={ptr}: request decodes as {:?}", reqmsg.as_ref().map(|m| m.queries[0].name.to_string()).map_err(|e| e.to_string()));
        let src: SocketAddr = "192.0.2.1:5353".parse().unwrap();
        let (handle, mut rx) = BufDnsStreamHandle::new(src);
        match Request::from_bytes(bytes, src, Protocol::Udp) {
            Ok(req) => {
                catalog.handle_request::<_, TokioTime>(&req, ResponseHandle::new(src, handle, Protocol::Udp)).await;
                while let Ok(Some(m)) = tokio::time::timeout(Duration::from_millis(1), rx.next()).await {
                    let (b, _) = m.into_parts();
                    println!("   response bytes={:02x?}", b);
                    println!("   response decodes as {:?}", Message::from_vec(&b).map(|m| (m.metadata.response_code, m.queries.iter().map(|q| q.name.to_string()).collect::<Vec<_>>())).map_err(|e| e.to_string()));
                }
            }
            Err(e) => println!("   request rejected: {e}"),
        }
    }
}
