// Spike S4 (+S6): TSIG-signed UPDATE -> Catalog -> SqliteZoneHandler; journal prefixes; RFC 2136 probes
use std::{net::SocketAddr, str::FromStr, sync::Arc, time::Duration};
use futures_util::StreamExt;
use hickory_net::{BufDnsStreamHandle, runtime::{Time, TokioRuntimeProvider}, xfer::Protocol};
use hickory_proto::{
    op::{Message, MessageType, OpCode, Query, update_message::UpdateMessage},
    rr::{DNSClass, Name, RData, Record, RecordType, TSigner, rdata::{A, CNAME, NS, SOA, TXT, tsig::TsigAlgorithm}},
};
use hickory_server::{
    server::{Request, RequestHandler, ResponseHandle},
    store::{in_memory::InMemoryZoneHandler, sqlite::{Journal, SqliteZoneHandler}},
    zone_handler::{AxfrPolicy, Catalog, ZoneType},
};

static NOWT: std::sync::atomic::AtomicU64 = std::sync::atomic::AtomicU64::new(1_000_000);
#[derive(Clone, Copy)]
struct SimTime;
#[async_trait::async_trait]
impl Time for SimTime {
    async fn delay_for(d: Duration) { tokio::time::sleep(d).await }
    async fn timeout<F: 'static + std::future::Future + Send>(d: Duration, f: F) -> Result<F::Output, std::io::Error> {
        tokio::time::timeout(d, f).await.map_err(|_| std::io::Error::new(std::io::ErrorKind::TimedOut, "t"))
    }
    fn current_time() -> u64 { NOWT.load(std::sync::atomic::Ordering::SeqCst) }
}
fn n(s: &str) -> Name { Name::from_str(s).unwrap() }
fn a(name: &str, ttl: u32, last: u8) -> Record { Record::from_rdata(n(name), ttl, RData::A(A::new(10, 0, 0, last))) }
fn with_class(mut r: Record, c: DNSClass) -> Record { r.dns_class = c; r }

fn base_zone(origin: &Name) -> InMemoryZoneHandler<TokioRuntimeProvider> {
    let mut z = InMemoryZoneHandler::empty(origin.clone(), ZoneType::Primary, AxfrPolicy::AllowAll, None);
    z.upsert_mut(Record::from_rdata(origin.clone(), 60, RData::SOA(SOA::new(n("n1.o."), n("h.o."), 5, 1, 1, 1, 1))), 5);
    z.upsert_mut(Record::from_rdata(origin.clone(), 60, RData::NS(NS(n("n1.o.")))), 5);
    z
}
async fn snapshot(h: &SqliteZoneHandler<TokioRuntimeProvider>) -> Vec<String> {
    let recs = h.records().await;
    let mut v = vec![];
    for (k, rs) in recs.iter() { if rs.is_empty() { v.push(format!("<empty rrset {} {}>", k.name, k.record_type)); } for r in rs.records_without_rrsigs() { v.push(format!("{r}")); } }
    v.sort(); v
}
async fn send(catalog: &Catalog, bytes: Vec<u8>) -> Vec<Message> {
    let src: SocketAddr = "192.0.2.1:5353".parse().unwrap();
    let (handle, mut rx) = BufDnsStreamHandle::new(src);
    let req = Request::from_bytes(bytes, src, Protocol::Tcp).unwrap();
    catalog.handle_request::<_, SimTime>(&req, ResponseHandle::new(src, handle, Protocol::Tcp)).await;
    let mut out = vec![];
    while let Ok(Some(m)) = tokio::time::timeout(Duration::from_millis(1), rx.next()).await { out.push(m.to_message().unwrap()); }
    out
}
struct Env { catalog: Catalog, h: Arc<SqliteZoneHandler<TokioRuntimeProvider>>, signer: TSigner, origin: Name, id: u16, sign_time: u64 }
impl Env {
    async fn new(journal: bool) -> Self {
        let origin = n("z.");
        let signer = TSigner::new(b"0123456789abcdef0123456789abcdef".to_vec(), TsigAlgorithm::HmacSha256, n("k1."), 300).unwrap();
        let mut h = SqliteZoneHandler::new(base_zone(&origin), AxfrPolicy::AllowAll, true, false);
        h.set_tsig_signers(vec![signer.clone()]);
        if journal {
            let mut j = Journal::new(rusqlite::Connection::open_in_memory().unwrap()).unwrap(); j.schema_up().unwrap();
            h.set_journal(j).await; h.persist_to_journal().await.unwrap();
        }
        let h = Arc::new(h);
        let mut catalog = Catalog::new(); catalog.upsert(origin.clone().into(), vec![h.clone()]);
        Env { catalog, h, signer, origin, id: 100, sign_time: 1_000_000 }
    }
    async fn update(&mut self, label: &str, prereqs: Vec<Record>, updates: Vec<Record>) {
        self.id += 1;
        let mut m = Message::new(self.id, MessageType::Query, OpCode::Update);
        m.add_zone(Query::new(self.origin.clone(), RecordType::SOA));
        for p in prereqs { m.add_pre_requisite(p); }
        for u in updates { m.add_update(u); }
        m.finalize(&self.signer, self.sign_time).unwrap();
        let resp = send(&self.catalog, m.to_vec().unwrap()).await;
        println!("{label}: rcode={:?} serial={} zone={:?}", resp[0].metadata.response_code, self.h.serial().await, snapshot(&self.h).await);
    }
    async fn query(&self, name: &str, t: RecordType) {
        let mut m = Message::new(9, MessageType::Query, OpCode::Query); m.add_query(Query::new(n(name), t));
        let resp = send(&self.catalog, m.to_vec().unwrap()).await;
        println!("   query {name} {t}: rcode={:?} answers={}", resp[0].metadata.response_code, resp[0].answers.len());
    }
}

#[tokio::main(flavor = "current_thread", start_paused = true)]
async fn main() {
    use std::sync::atomic::Ordering::SeqCst;
    let mut e = Env::new(false).await;   // signer fudge = 300
    let mut k = 0u8;
    for (label, signed_at, server_now) in [("now = T", 1_000_000u64, 1_000_000u64), ("now = T+299", 1_000_000, 1_000_299), ("now = T+300 (edge)", 1_000_000, 1_000_300), ("now = T+301", 1_000_000, 1_000_301), ("now = T-300 (edge)", 1_000_000, 999_700), ("now = T-301", 1_000_000, 999_699)] {
        k += 1; e.sign_time = signed_at; NOWT.store(server_now, SeqCst);
        e.update(label, vec![], vec![a("t.z.", 60, k)]).await;
    }
    // time signed smaller than fudge: T=100, fudge=300, server clock 100
    e.sign_time = 100; NOWT.store(100, SeqCst);
    let r = std::panic::AssertUnwindSafe(e.update("T=100 < fudge=300 (valid MAC)", vec![], vec![a("u.z.", 60, 9)]));
    let r = futures_util::FutureExt::catch_unwind(r).await;
    println!("   -> {}", if r.is_err() { "PANIC in handler" } else { "returned" });
}
