// Spike S14: C01 family 1 preview — all RDATA byte strings of length 0..=3 for every record type code of interest
use hickory_proto::{rr::{RData, RecordType}, serialize::binary::BinDecoder, op::Message};
use std::sync::{Mutex, atomic::{AtomicU64, Ordering}};
static PANICS: Mutex<Vec<String>> = Mutex::new(Vec::new());
fn main() {
    std::panic::set_hook(Box::new(|info| { let s = format!("{}", info); let mut p = PANICS.lock().unwrap(); if p.len() < 20 && !p.iter().any(|x| x.split('\n').next() == s.split('\n').next()) { p.push(s); } }));
    let types: Vec<u16> = (0u16..=70).chain([99, 249, 250, 251, 252, 255, 256, 257, 32768, 65280, 65535]).collect();
    let total = AtomicU64::new(0); let oks = AtomicU64::new(0);
    std::thread::scope(|sc| {
        for chunk in types.chunks((types.len() + 15) / 16) {
            let (total, oks) = (&total, &oks);
            sc.spawn(move || for &t in chunk { let rt = RecordType::from(t);
                for len in 0..=3usize { let n = 256usize.pow(len as u32); for v in 0..n { let b = [(v >> 16) as u8, (v >> 8) as u8, v as u8]; let bytes = &b[3 - len..];
                    total.fetch_add(1, Ordering::Relaxed);
                    let r = std::panic::catch_unwind(|| RData::read(BinDecoder::new(bytes), rt).is_ok());
                    if let Ok(true) = r { oks.fetch_add(1, Ordering::Relaxed); } } } });
        }
    });
    println!("rdata decodes={} ok={} distinct panic sites={}", total.load(Ordering::Relaxed), oks.load(Ordering::Relaxed), PANICS.lock().unwrap().len());
    for p in PANICS.lock().unwrap().iter() { println!("  PANIC: {}", p.replace('\n', " | ")); }
    // whole messages: header (12 bytes, counts 1/1/0/1) + all 3-byte bodies + a few
    let mut n = 0u64; let mut ok = 0u64;
    for hdr_counts in [[0u8,1,0,0,0,0,0,0],[0,0,0,1,0,0,0,0],[0,1,0,1,0,0,0,1],[0xff,0xff,0xff,0xff,0xff,0xff,0xff,0xff]] {
        for v in 0..(1u32 << 24) { let mut m = vec![0x12, 0x34, 0x01, 0x00]; m.extend_from_slice(&hdr_counts); m.extend_from_slice(&[(v >> 16) as u8, (v >> 8) as u8, v as u8]);
            n += 1; if let Ok(Ok(_)) = std::panic::catch_unwind(|| Message::from_vec(&m)) { ok += 1; } } }
    println!("message decodes={n} ok={ok} distinct panic sites={}", PANICS.lock().unwrap().len());
}
