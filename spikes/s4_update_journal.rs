// Spike S4 (+S6): TSIG-signed UPDATE -> Catalog -> SqliteZoneHandler; journal prefixes; RFC 2136 probes
use std::{net::SocketAddr, str::FromStr, sync::Arc, time::Duration};
use futures_util::StreamExt;
use hickory_net::{BufDnsStreamHandle, runtime::{Time, TokioRuntimeProvider}, xfer::Protocol};
use hickory_proto::{
    op::{Message, MessageType, OpCode, Query, update_message::UpdateMessage},
    rr::{DNSClass, Name, RData, Record, RecordType, TSigner, rdata::{A, CNAME, NS, SOA, TXT, tsig::TsigAlgorithm}},
};
use hickory_server::{
    server::{Request, RequestHandler, ResponseHandle},
    store::{in_memory::InMemoryZoneHandler, sqlite::{Journal, SqliteZoneHandler}},
    zone_handler::{AxfrPolicy, Catalog, ZoneType},
};

#[derive(Clone, Copy)]
struct SimTime;
#[async_trait::async_trait]
impl Time for SimTime {
    async fn delay_for(d: Duration) { tokio::time::sleep(d).await }
    async fn timeout<F: 'static + std::future::Future + Send>(d: Duration, f: F) -> Result<F::Output, std::io::Error> {
        tokio::time::timeout(d, f).await.map_err(|_| std::io::Error::new(std::io::ErrorKind::TimedOut, "t"))
    }
    fn current_time() -> u64 { 1_000_000 }
}
fn n(s: &str) -> Name { Name::from_str(s).unwrap() }
fn a(name: &str, ttl: u32, last: u8) -> Record { Record::from_rdata(n(name), ttl, RData::A(A::new(10, 0, 0, last))) }
fn with_class(mut r: Record, c: DNSClass) -> Record { r.dns_class = c; r }

fn base_zone(origin: &Name) -> InMemoryZoneHandler<TokioRuntimeProvider> {
    let mut z = InMemoryZoneHandler::empty(origin.clone(), ZoneType::Primary, AxfrPolicy::AllowAll, None);
    z.upsert_mut(Record::from_rdata(origin.clone(), 60, RData::SOA(SOA::new(n("n1.o."), n("h.o."), 5, 1, 1, 1, 1))), 5);
    z.upsert_mut(Record::from_rdata(origin.clone(), 60, RData::NS(NS(n("n1.o.")))), 5);
    z
}
async fn snapshot(h: &SqliteZoneHandler<TokioRuntimeProvider>) -> Vec<String> {
    let recs = h.records().await;
    let mut v = vec![];
    for (k, rs) in recs.iter() { if rs.is_empty() { v.push(format!("<empty rrset {} {}>", k.name, k.record_type)); } for r in rs.records_without_rrsigs() { v.push(format!("{r}")); } }
    v.sort(); v
}
async fn send(catalog: &Catalog, bytes: Vec<u8>) -> Vec<Message> {
    let src: SocketAddr = "192.0.2.1:5353".parse().unwrap();
    let (handle, mut rx) = BufDnsStreamHandle::new(src);
    let req = Request::from_bytes(bytes, src, Protocol::Tcp).unwrap();
    catalog.handle_request::<_, SimTime>(&req, ResponseHandle::new(src, handle, Protocol::Tcp)).await;
    let mut out = vec![];
    while let Ok(Some(m)) = tokio::time::timeout(Duration::from_millis(1), rx.next()).await { out.push(m.to_message().unwrap()); }
    out
}
struct Env { catalog: Catalog, h: Arc<SqliteZoneHandler<TokioRuntimeProvider>>, signer: TSigner, origin: Name, id: u16 }
impl Env {
    async fn new(journal: bool) -> Self {
        let origin = n("z.");
        let signer = TSigner::new(b"0123456789abcdef0123456789abcdef".to_vec(), TsigAlgorithm::HmacSha256, n("k1."), 300).unwrap();
        let mut h = SqliteZoneHandler::new(base_zone(&origin), AxfrPolicy::AllowAll, true, false);
        h.set_tsig_signers(vec![signer.clone()]);
        if journal {
            let mut j = Journal::new(rusqlite::Connection::open_in_memory().unwrap()).unwrap(); j.schema_up().unwrap();
            h.set_journal(j).await; h.persist_to_journal().await.unwrap();
        }
        let h = Arc::new(h);
        let mut catalog = Catalog::new(); catalog.upsert(origin.clone().into(), vec![h.clone()]);
        Env { catalog, h, signer, origin, id: 100 }
    }
    async fn update(&mut self, label: &str, prereqs: Vec<Record>, updates: Vec<Record>) {
        self.id += 1;
        let mut m = Message::new(self.id, MessageType::Query, OpCode::Update);
        m.add_zone(Query::new(self.origin.clone(), RecordType::SOA));
        for p in prereqs { m.add_pre_requisite(p); }
        for u in updates { m.add_update(u); }
        m.finalize(&self.signer, SimTime::current_time()).unwrap();
        let resp = send(&self.catalog, m.to_vec().unwrap()).await;
        println!("{label}: rcode={:?} serial={} zone={:?}", resp[0].metadata.response_code, self.h.serial().await, snapshot(&self.h).await);
    }
    async fn query(&self, name: &str, t: RecordType) {
        let mut m = Message::new(9, MessageType::Query, OpCode::Query); m.add_query(Query::new(n(name), t));
        let resp = send(&self.catalog, m.to_vec().unwrap()).await;
        println!("   query {name} {t}: rcode={:?} answers={}", resp[0].metadata.response_code, resp[0].answers.len());
    }
}

#[tokio::main(flavor = "current_thread", start_paused = true)]
async fn main() {
    // ---- S6: RFC 2136 probes (no journal) ----
    let mut e = Env::new(false).await;
    e.update("add a.z A {1,2}", vec![], vec![a("a.z.", 60, 1), a("a.z.", 60, 2)]).await;
    e.update("prereq value-dependent SUBSET {1} of zone {1,2} (RFC: NXRRSET)", vec![a("a.z.", 0, 1)], vec![a("b.z.", 60, 9)]).await;
    e.update("add wildcard *.z TXT", vec![], vec![Record::from_rdata(n("*.z."), 60, RData::TXT(TXT::new(vec!["w".to_string()])))]).await;
    e.update("prereq 'name in use' x.z (only wildcard exists; RFC: NXDOMAIN)", vec![with_class(Record::update0(n("x.z."), 0, RecordType::ANY), DNSClass::ANY)], vec![a("c.z.", 60, 7)]).await;
    e.update("TTL-only change a.z A 1 ttl 60->120 (RFC: replace)", vec![], vec![a("a.z.", 120, 1)]).await;
    e.update("add SOA at non-apex d.z (RFC: ignored)", vec![], vec![Record::from_rdata(n("d.z."), 60, RData::SOA(SOA::new(n("n1.o."), n("h.o."), 99, 1, 1, 1, 1)))]).await;
    e.update("delete RR b.z A 9 (last RR of the name)", vec![], vec![with_class(a("b.z.", 0, 9), DNSClass::NONE)]).await;
    e.query("b.z.", RecordType::A).await;
    e.update("add CNAME at a.z (has A; RFC: ignored)", vec![], vec![Record::from_rdata(n("a.z."), 60, RData::CNAME(CNAME(n("c.z."))))]).await;
    e.update("delete last NS at non-apex after adding one", vec![], vec![Record::from_rdata(n("s.z."), 60, RData::NS(NS(n("n9.o."))))]).await;
    e.update("  ... delete RR s.z NS n9.o (RFC: deleted, non-apex)", vec![], vec![with_class(Record::from_rdata(n("s.z."), 0, RData::NS(NS(n("n9.o.")))), DNSClass::NONE)]).await;

    // ---- S4: journal prefixes ----
    let mut e = Env::new(true).await;
    e.update("journal: add a.z A {1,2}", vec![], vec![a("a.z.", 60, 1), a("a.z.", 60, 2)]).await;
    let rows: Vec<(i64, i64, String, Vec<u8>)> = {
        let j = e.h.journal().await; let conn = j.as_ref().unwrap().conn();
        let mut st = conn.prepare("SELECT client_id, soa_serial, timestamp, record FROM records ORDER BY _rowid_").unwrap();
        let it = st.query_map([], |r| Ok((r.get(0)?, r.get(1)?, r.get(2)?, r.get(3)?))).unwrap();
        it.map(|x| x.unwrap()).collect()
    };
    for k in 0..=rows.len() {
        let mut j = Journal::new(rusqlite::Connection::open_in_memory().unwrap()).unwrap(); j.schema_up().unwrap();
        { let c = j.conn(); for r in &rows[..k] { c.execute("INSERT INTO records (client_id, soa_serial, timestamp, record) VALUES (?1,?2,?3,?4)", rusqlite::params![r.0, r.1, r.2, r.3]).unwrap(); } }
        let empty = InMemoryZoneHandler::empty(e.origin.clone(), ZoneType::Primary, AxfrPolicy::AllowAll, None);
        let mut rec = SqliteZoneHandler::<TokioRuntimeProvider>::new(empty, AxfrPolicy::AllowAll, true, false);
        let r = rec.recover_with_journal(&j).await;
        println!("k={k} recover_ok={} serial={} zone={:?}", r.is_ok(), rec.serial().await, snapshot(&rec).await);
    }
}
