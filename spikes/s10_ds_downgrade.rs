// Spike S10: two-level signed hierarchy served by the real authoritative code; honest validation,
// then a DS-stripping downgrade attempt that borrows an authority record from an insecure sibling zone.
use std::{net::SocketAddr, pin::Pin, str::FromStr, sync::{Arc, Mutex}, time::Duration};
use futures_util::{Stream, StreamExt, stream};
use hickory_net::{BufDnsStreamHandle, NetError, dnssec::DnssecDnsHandle, runtime::{TokioRuntimeProvider, TokioTime}, xfer::{DnsHandle, Protocol}};
use hickory_proto::{
    dnssec::{DigestType, DnssecSigner, PublicKeyBuf, SigningKey, TrustAnchors, crypto::Ed25519SigningKey, rdata::{DNSKEY, DNSSECRData, DS}},
    op::{DnsRequest, DnsRequestOptions, DnsResponse, Edns, Message, MessageType, OpCode, Query, ResponseCode},
    rr::{Name, RData, Record, RecordType, rdata::{A, NS, SOA}},
};
use hickory_server::{dnssec::NxProofKind, server::{Request, RequestHandler, ResponseHandle}, store::in_memory::InMemoryZoneHandler, zone_handler::{AxfrPolicy, Catalog, ZoneType}};

fn n(s: &str) -> Name { Name::from_str(s).unwrap() }
fn newkey() -> (Box<dyn SigningKey>, PublicKeyBuf) { let k = Ed25519SigningKey::from_pkcs8(&Ed25519SigningKey::generate_pkcs8().unwrap()).unwrap(); let pk = k.to_public_key().unwrap(); (Box::new(k), pk) }
fn base(origin: &Name) -> InMemoryZoneHandler<TokioRuntimeProvider> {
    let mut z = InMemoryZoneHandler::empty(origin.clone(), ZoneType::Primary, AxfrPolicy::Deny, Some(NxProofKind::Nsec));
    z.upsert_mut(Record::from_rdata(origin.clone(), 300, RData::SOA(SOA::new(n("ns.o."), n("h.o."), 1, 1, 1, 1, 300))), 1);
    z.upsert_mut(Record::from_rdata(origin.clone(), 300, RData::NS(NS(n("ns.o.")))), 1);
    z
}
fn sign(mut z: InMemoryZoneHandler<TokioRuntimeProvider>, origin: &Name, k: Box<dyn SigningKey>, pk: &PublicKeyBuf) -> Catalog {
    z.add_zone_signing_key_mut(DnssecSigner::new(DNSKEY::from_key(pk), k, origin.clone(), Duration::from_secs(3600))).unwrap();
    z.secure_zone_mut().unwrap();
    let mut c = Catalog::new(); c.upsert(origin.clone().into(), vec![Arc::new(z)]); c
}
async fn authoritative(c: &Catalog, q: &Query) -> Message {
    let src: SocketAddr = "192.0.2.1:5353".parse().unwrap();
    let mut m = Message::new(1, MessageType::Query, OpCode::Query); m.add_query(q.clone());
    let mut e = Edns::new(); e.enable_dnssec(); e.set_max_payload(4096); m.set_edns(e);
    let (handle, mut rx) = BufDnsStreamHandle::new(src);
    let req = Request::from_bytes(m.to_vec().unwrap(), src, Protocol::Tcp).unwrap();
    c.handle_request::<_, TokioTime>(&req, ResponseHandle::new(src, handle, Protocol::Tcp)).await;
    rx.next().await.unwrap().to_message().unwrap()
}
type Tamper = Arc<dyn Fn(&Query, Message) -> Message + Send + Sync>;
#[derive(Clone)]
struct Upstream { root: Arc<Catalog>, t: Arc<Catalog>, tamper: Tamper, log: Arc<Mutex<Vec<String>>> }
impl DnsHandle for Upstream {
    type Response = Pin<Box<dyn Stream<Item = Result<DnsResponse, NetError>> + Send>>;
    type Runtime = TokioRuntimeProvider;
    fn send(&self, request: DnsRequest) -> Self::Response {
        let q = request.queries[0].clone(); let this = self.clone(); let id = request.id;
        Box::pin(stream::once(async move {
            let in_t = n("t.").zone_of(&q.name) && !(q.name == n("t.") && q.query_type == RecordType::DS);
            let in_u = n("u.").zone_of(&q.name) && !(q.name == n("u.") && q.query_type == RecordType::DS);
            let mut m = if in_t { authoritative(&this.t, &q).await }
                else if in_u { let mut m = Message::new(0, MessageType::Response, OpCode::Query); m.add_query(q.clone()); if q.name == n("u.") && q.query_type == RecordType::NS { m.add_answer(Record::from_rdata(n("u."), 300, RData::NS(NS(n("ns.u."))))); } m }
                else { let mut m = authoritative(&this.root, &q).await;
                       // a recursive upstream answers NS queries for a delegated name with the NS set in the answer section
                       if q.query_type == RecordType::NS && m.answers.is_empty() { let nsr: Vec<Record> = m.authorities.iter().filter(|r| r.record_type() == RecordType::NS && r.name == q.name).cloned().collect(); if !nsr.is_empty() { m.authorities.clear(); m.add_answers(nsr); } }
                       m };
            m = (this.tamper)(&q, m); m.metadata.id = id; m.metadata.message_type = MessageType::Response;
            this.log.lock().unwrap().push(format!("{} {} -> {:?} an={} ns={}", q.name, q.query_type, m.metadata.response_code, m.answers.len(), m.authorities.len()));
            DnsResponse::from_message(m).map_err(NetError::from)
        }))
    }
}
#[tokio::main(flavor = "current_thread")]
async fn main() {
    let (kr, pkr) = newkey(); let (kt, pkt) = newkey();
    let mut root = base(&Name::root());
    root.upsert_mut(Record::from_rdata(n("t."), 300, RData::NS(NS(n("ns.t.")))), 1);
    root.upsert_mut(Record::from_rdata(n("t."), 300, RData::DNSSEC(DNSSECRData::DS(DS::from_key(&pkt, &n("t."), DigestType::SHA256).unwrap()))), 1);
    root.upsert_mut(Record::from_rdata(n("u."), 300, RData::NS(NS(n("ns.u.")))), 1);          // insecure delegation (no DS)
    let root = Arc::new(sign(root, &Name::root(), kr, &pkr));
    let mut t = base(&n("t."));
    t.upsert_mut(Record::from_rdata(n("www.t."), 300, RData::A(A::new(192,0,2,80))), 1);
    let t = Arc::new(sign(t, &n("t."), kt, &pkt));
    let mut anchors = TrustAnchors::empty(); anchors.insert(&pkr); let anchors = Arc::new(anchors);
    let honest: Tamper = Arc::new(|_, m| m);
    let attack: Tamper = Arc::new(|q, mut m| {
        if q.name == n("www.t.") && q.query_type == RecordType::A { m.answers.clear(); m.authorities.clear(); m.additionals.clear(); m.add_answer(Record::from_rdata(n("www.t."), 300, RData::A(A::new(6,6,6,6)))); m.metadata.response_code = ResponseCode::NoError; }
        if q.name == n("t.") && q.query_type == RecordType::DS { m.answers.clear(); m.authorities.clear(); m.additionals.clear(); m.metadata.response_code = ResponseCode::NoError;
            m.add_authority(Record::from_rdata(n("x.u."), 300, RData::DNSSEC(DNSSECRData::NSEC(hickory_proto::dnssec::rdata::NSEC::new(n("y.u."), [RecordType::A])))));  }   // unsigned NSEC owned by a name in the insecure sibling
        m });
    for (label, tamper) in [("honest", honest), ("DS stripped + unsigned NSEC owned by insecure sibling x.u.", attack)] {
        let up = Upstream { root: root.clone(), t: t.clone(), tamper, log: Default::default() };
        let h = DnssecDnsHandle::with_trust_anchor(up.clone(), anchors.clone());
        let r = h.lookup(Query::new(n("www.t."), RecordType::A), DnsRequestOptions::default()).next().await.unwrap();
        match r { Ok(resp) => println!("{label}: {:?}", resp.answers.iter().filter(|r| r.record_type() == RecordType::A).map(|r| format!("{} {} proof={:?}", r.name, r.data, r.proof)).collect::<Vec<_>>()), Err(e) => println!("{label}: Err({e})") }
        for l in up.log.lock().unwrap().iter() { println!("      upstream: {l}"); }
    }
}
