// Spike S2: real signed zone (NSEC) from InMemoryZoneHandler; attacker replays the parent-side
// delegation NSEC of a.z. to "prove" NODATA for a.z. A (RFC 6840 4.1 forbids this).
use std::{pin::Pin, str::FromStr, sync::Arc, time::Duration};
use futures_util::{Stream, StreamExt, stream};
use hickory_net::{NetError, dnssec::DnssecDnsHandle, runtime::TokioRuntimeProvider, xfer::DnsHandle};
use hickory_proto::{
    dnssec::{DnssecSigner, SigningKey, TrustAnchors, crypto::Ed25519SigningKey, rdata::DNSKEY},
    op::{DnsRequest, DnsRequestOptions, DnsResponse, Message, MessageType, OpCode, Query, ResponseCode},
    rr::{Name, RData, Record, RecordType, rdata::{A, NS, SOA}},
};
use hickory_server::{dnssec::NxProofKind, store::in_memory::InMemoryZoneHandler, zone_handler::{AxfrPolicy, ZoneType}};

fn n(s: &str) -> Name { Name::from_str(s).unwrap() }
#[derive(Clone)]
struct Upstream { f: Arc<dyn Fn(&Query) -> Message + Send + Sync> }
impl DnsHandle for Upstream {
    type Response = Pin<Box<dyn Stream<Item = Result<DnsResponse, NetError>> + Send>>;
    type Runtime = TokioRuntimeProvider;
    fn send(&self, request: DnsRequest) -> Self::Response {
        let q = request.queries[0].clone(); let mut m = (self.f)(&q); m.metadata.id = request.id;
        Box::pin(stream::once(async move { DnsResponse::from_message(m).map_err(NetError::from) }))
    }
}
#[tokio::main(flavor = "current_thread")]
async fn main() {
    let origin = n("z.");
    let mut zone = InMemoryZoneHandler::<TokioRuntimeProvider>::empty(origin.clone(), ZoneType::Primary, AxfrPolicy::Deny, Some(NxProofKind::Nsec3 { algorithm: Default::default(), salt: Arc::new([]), iterations: 0, opt_out: true }));
    zone.upsert_mut(Record::from_rdata(origin.clone(), 300, RData::SOA(SOA::new(n("ns.o."), n("h.o."), 1, 1, 1, 1, 300))), 1);
    zone.upsert_mut(Record::from_rdata(origin.clone(), 300, RData::NS(NS(n("ns.o.")))), 1);
    zone.upsert_mut(Record::from_rdata(n("a.z."), 300, RData::NS(NS(n("ns.a.z.")))), 1);          // delegation
    zone.upsert_mut(Record::from_rdata(n("ns.a.z."), 300, RData::A(A::new(10,0,0,53))), 1);        // glue
    zone.upsert_mut(Record::from_rdata(n("b.z."), 300, RData::A(A::new(10,0,0,2))), 1);
    let k: Box<dyn SigningKey> = Box::new(Ed25519SigningKey::from_pkcs8(&Ed25519SigningKey::generate_pkcs8().unwrap()).unwrap());
    let pk = k.to_public_key().unwrap();
    zone.add_zone_signing_key_mut(DnssecSigner::new(DNSKEY::from_key(&pk), k, origin.clone(), Duration::from_secs(3600))).unwrap();
    zone.secure_zone_mut().unwrap();
    // dump the signed zone
    let mut all: Vec<Record> = vec![];
    for rs in zone.records().await.values() { for r in rs.records_with_rrsigs() { all.push(r.clone()); } }
    for r in &all { if matches!(r.record_type(), RecordType::NSEC3) { println!("  {r}"); } }
    let pick = |name: &Name, t: RecordType| -> Vec<Record> { all.iter().filter(|r| &r.name == name && (r.record_type() == t || matches!(&r.data, RData::DNSSEC(hickory_proto::dnssec::rdata::DNSSECRData::RRSIG(s)) if s.input().type_covered == t))).cloned().collect() };
    let soa = pick(&origin, RecordType::SOA); let dnskey = pick(&origin, RecordType::DNSKEY);
    let all_nsec3: Vec<Record> = all.iter().filter(|r| r.record_type() == RecordType::NSEC3 || matches!(&r.data, RData::DNSSEC(hickory_proto::dnssec::rdata::DNSSECRData::RRSIG(s)) if s.input().type_covered == RecordType::NSEC3)).cloned().collect();
    let mut anchors = TrustAnchors::empty(); anchors.insert(&pk); let anchors = Arc::new(anchors);
    let auth = [soa.clone(), all_nsec3.clone()].concat();
    let cases: Vec<(&str, Query, ResponseCode, Vec<Record>)> = vec![
        ("NXDOMAIN a.z. A (FALSE: a.z. exists as an insecure delegation, hidden by opt-out)", Query::new(n("a.z."), RecordType::A), ResponseCode::NXDomain, auth.clone()),
        ("NXDOMAIN www.a.z. A (below the insecure delegation; unknowable from this zone)", Query::new(n("www.a.z."), RecordType::A), ResponseCode::NXDomain, auth.clone()),
        ("NXDOMAIN c.z. A (true)", Query::new(n("c.z."), RecordType::A), ResponseCode::NXDomain, auth.clone()),
        ("NXDOMAIN b.z. A (FALSE: b.z exists)", Query::new(n("b.z."), RecordType::A), ResponseCode::NXDomain, auth.clone()),
        ("NODATA a.z. DS (true: insecure delegation, opt-out)", Query::new(n("a.z."), RecordType::DS), ResponseCode::NoError, auth.clone()),
    ];
    for (label, q, rcode, auth) in cases {
        let (dk, qq, auth2) = (dnskey.clone(), q.clone(), auth.clone());
        let up = Upstream { f: Arc::new(move |query: &Query| {
            let mut m = Message::new(0, MessageType::Response, OpCode::Query); m.add_query(query.clone());
            if query.query_type == RecordType::DNSKEY { m.add_answers(dk.clone()); }
            else if query.name == qq.name && query.query_type == qq.query_type { m.metadata.response_code = rcode; m.add_authorities(auth2.clone()); }
            m }) };
        let h = DnssecDnsHandle::with_trust_anchor(up, anchors.clone());
        let r = h.lookup(q.clone(), DnsRequestOptions::default()).next().await.unwrap();
        match r {
            Ok(resp) => println!("{label}\n    => accepted rcode={:?} authority proofs={:?}", resp.response_code, resp.authorities.iter().map(|r| format!("{}:{:?}", r.record_type(), r.proof)).collect::<Vec<_>>()),
            Err(e) => println!("{label}\n    => rejected: {e}"),
        }
    }
}
