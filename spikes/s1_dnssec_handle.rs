// Spike S1: DnssecDnsHandle over a scripted upstream DnsHandle with a virtual validator clock.
//  (a) sibling-signer forgery is returned Secure; (b) cached verdict outlives the signature.
use std::{pin::Pin, str::FromStr, sync::{Arc, atomic::{AtomicU64, Ordering}}, time::Duration};
use futures_util::{Stream, StreamExt, stream};
use hickory_net::{NetError, dnssec::DnssecDnsHandle, xfer::DnsHandle,
    runtime::{RuntimeProvider, Time, TokioHandle, TokioRuntimeProvider, TokioTime}};
use hickory_proto::{
    dnssec::{DnssecSigner, PublicKeyBuf, SigningKey, TrustAnchors, crypto::Ed25519SigningKey, rdata::{DNSKEY, DNSSECRData, RRSIG}},
    op::{DnsRequest, DnsRequestOptions, DnsResponse, Message, MessageType, OpCode, Query},
    rr::{DNSClass, Name, RData, Record, RecordSet, RecordType, rdata::A},
};
use time::OffsetDateTime;

static NOW: AtomicU64 = AtomicU64::new(0);
#[derive(Clone, Copy)] struct SimTime;
#[async_trait::async_trait]
impl Time for SimTime {
    async fn delay_for(d: Duration) { TokioTime::delay_for(d).await }
    async fn timeout<F: 'static + std::future::Future + Send>(d: Duration, f: F) -> Result<F::Output, std::io::Error> { TokioTime::timeout(d, f).await }
    fn current_time() -> u64 { NOW.load(Ordering::SeqCst) }
}
#[derive(Clone, Default)] struct SimProvider(TokioRuntimeProvider);
impl RuntimeProvider for SimProvider {
    type Handle = TokioHandle; type Timer = SimTime;
    type Udp = <TokioRuntimeProvider as RuntimeProvider>::Udp; type Tcp = <TokioRuntimeProvider as RuntimeProvider>::Tcp;
    fn create_handle(&self) -> TokioHandle { self.0.create_handle() }
    fn connect_tcp(&self, a: std::net::SocketAddr, b: Option<std::net::SocketAddr>, t: Option<Duration>) -> Pin<Box<dyn Send + std::future::Future<Output = Result<Self::Tcp, std::io::Error>>>> { self.0.connect_tcp(a, b, t) }
    fn bind_udp(&self, l: std::net::SocketAddr, s: std::net::SocketAddr) -> Pin<Box<dyn Send + std::future::Future<Output = Result<Self::Udp, std::io::Error>>>> { self.0.bind_udp(l, s) }
}

struct Zone { name: Name, signer: DnssecSigner, dnskey: DNSKEY, pk: PublicKeyBuf }
impl Zone {
    fn new(name: &str, sig_secs: u64) -> Self {
        let k: Box<dyn SigningKey> = Box::new(Ed25519SigningKey::from_pkcs8(&Ed25519SigningKey::generate_pkcs8().unwrap()).unwrap());
        let pk = k.to_public_key().unwrap(); let dnskey = DNSKEY::from_key(&pk); let name = Name::from_str(name).unwrap();
        Zone { signer: DnssecSigner::new(dnskey.clone(), k, name.clone(), Duration::from_secs(sig_secs)), dnskey, name, pk }
    }
    fn sign(&self, rrset: &RecordSet, inception: u64) -> Record {
        let rrsig = RRSIG::from_rrset(rrset, DNSClass::IN, OffsetDateTime::from_unix_timestamp(inception as i64).unwrap(), &self.signer).unwrap();
        Record::from_rdata(rrset.name().clone(), rrset.ttl(), RData::DNSSEC(DNSSECRData::RRSIG(rrsig)))
    }
    fn dnskey_answer(&self, inception: u64) -> Vec<Record> {
        let mut rs = RecordSet::with_ttl(self.name.clone(), RecordType::DNSKEY, 300);
        rs.add_rdata(RData::DNSSEC(DNSSECRData::DNSKEY(self.dnskey.clone())));
        let sig = self.sign(&rs, inception);
        let mut v: Vec<Record> = rs.records_without_rrsigs().cloned().collect(); v.push(sig); v
    }
}
#[derive(Clone)]
struct Upstream { table: Arc<Vec<(Query, Vec<Record>)>>, log: Arc<std::sync::Mutex<Vec<String>>> }
impl DnsHandle for Upstream {
    type Response = Pin<Box<dyn Stream<Item = Result<DnsResponse, NetError>> + Send>>;
    type Runtime = SimProvider;
    fn send(&self, request: DnsRequest) -> Self::Response {
        let q = request.queries[0].clone();
        self.log.lock().unwrap().push(format!("{} {}", q.name, q.query_type));
        let mut m = Message::new(request.id, MessageType::Response, OpCode::Query); m.add_query(q.clone());
        for (tq, recs) in self.table.iter() { if tq.name == q.name && tq.query_type == q.query_type { m.add_answers(recs.clone()); } }
        Box::pin(stream::once(async move { DnsResponse::from_message(m).map_err(NetError::from) }))
    }
}
async fn ask(h: &DnssecDnsHandle<Upstream>, name: &Name, label: &str) {
    match h.lookup(Query::new(name.clone(), RecordType::A), DnsRequestOptions::default()).next().await.unwrap() {
        Ok(resp) => for rec in resp.answers.iter().filter(|r| r.record_type() == RecordType::A) { println!("{label}: {} proof={:?} ttl={}", rec.data, rec.proof, rec.ttl); },
        Err(err) => println!("{label}: error {err}"),
    }
}
#[tokio::main(flavor = "current_thread")]
async fn main() {
    let t0 = OffsetDateTime::now_utc().unix_timestamp() as u64; NOW.store(t0, Ordering::SeqCst);
    let (z, e) = (Zone::new("z.", 100), Zone::new("e.", 3600));
    let anchors = || { let mut a = TrustAnchors::empty(); a.insert(&z.pk); a.insert(&e.pk); Arc::new(a) };
    let www = Name::from_str("www.z.").unwrap();
    let mut honest = RecordSet::with_ttl(www.clone(), RecordType::A, 300); honest.add_rdata(RData::A(A::new(192,0,2,1)));
    let mut forged = RecordSet::with_ttl(www.clone(), RecordType::A, 300); forged.add_rdata(RData::A(A::new(6,6,6,6)));
    let table = |rrset: &RecordSet, by: &Zone| { let mut ans: Vec<Record> = rrset.records_without_rrsigs().cloned().collect(); ans.push(by.sign(rrset, t0));
        Arc::new(vec![(Query::new(www.clone(), RecordType::A), ans), (Query::new(z.name.clone(), RecordType::DNSKEY), z.dnskey_answer(t0)), (Query::new(e.name.clone(), RecordType::DNSKEY), e.dnskey_answer(t0))]) };
    // (a) sibling signer
    let up = Upstream { table: table(&forged, &e), log: Default::default() };
    ask(&DnssecDnsHandle::with_trust_anchor(up.clone(), anchors()), &www, "(a) forged, signed by sibling e.").await;
    println!("    upstream queries: {:?}", up.log.lock().unwrap());
    // (b) cached verdict vs. signature lifetime (z signs for 100 s, record TTL 300)
    let up = Upstream { table: table(&honest, &z), log: Default::default() };
    let h = DnssecDnsHandle::with_trust_anchor(up.clone(), anchors());
    for dt in [10u64, 99, 200] { NOW.store(t0 + dt, Ordering::SeqCst); ask(&h, &www, &format!("(b) same handle  t0+{dt} (sig life left {})", 100i64 - dt as i64)).await; }
    ask(&DnssecDnsHandle::with_trust_anchor(up.clone(), anchors()), &www, "(b) fresh handle t0+200").await;
}
