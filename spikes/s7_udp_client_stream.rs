// Spike S7: UdpClientStream over a scripted DnsUdpSocket (custom RuntimeProvider), paused tokio clock.
use std::{collections::VecDeque, future::Future, io, net::SocketAddr, pin::Pin, sync::{Arc, Mutex}, task::{Context, Poll, Waker}, time::Duration};
use futures_util::StreamExt;
use hickory_net::{runtime::{DnsUdpSocket, RuntimeProvider, TokioHandle, TokioRuntimeProvider, TokioTime}, udp::UdpClientStream, xfer::DnsRequestSender};
use hickory_proto::{op::{DnsRequest, DnsRequestOptions, Message, Query}, rr::{Name, RData, Record, RecordType, rdata::A}};

#[derive(Clone, Copy, Debug)]
enum Kind { Genuine, WrongIp, WrongPort, WrongId, WrongName, Garbage, GarbageWrongSrc }
#[derive(Default)]
struct Shared { script: VecDeque<Kind>, sent: Vec<Vec<u8>>, recv_calls: usize, waker: Option<Waker>, log: Vec<String> }
#[derive(Clone)]
struct Sim { sh: Arc<Mutex<Shared>>, rt: TokioRuntimeProvider, server: SocketAddr }
struct SimUdp { sim: Sim }
impl DnsUdpSocket for SimUdp {
    type Time = TokioTime;
    fn poll_recv_from(&self, cx: &mut Context<'_>, buf: &mut [u8]) -> Poll<io::Result<(usize, SocketAddr)>> {
        let mut sh = self.sim.sh.lock().unwrap();
        let Some(req) = sh.sent.last().cloned() else { sh.waker = Some(cx.waker().clone()); return Poll::Pending };
        let Some(kind) = sh.script.pop_front() else { sh.waker = Some(cx.waker().clone()); return Poll::Pending }; // silence
        sh.recv_calls += 1;
        let q = Message::from_vec(&req).unwrap();
        let mut resp = Message::response(q.metadata.id, q.metadata.op_code); resp.add_queries(q.queries.clone());
        resp.add_answer(Record::from_rdata(q.queries[0].name.clone(), 60, RData::A(A::new(10,0,0,1))));
        let mut src = self.sim.server;
        let mut bytes = match kind {
            Kind::Genuine => resp.to_vec().unwrap(),
            Kind::WrongIp => { src.set_ip("203.0.113.9".parse().unwrap()); resp.to_vec().unwrap() }
            Kind::WrongPort => { src.set_port(5354); resp.to_vec().unwrap() }
            Kind::WrongId => { resp.metadata.id ^= 1; resp.add_answer(Record::from_rdata(q.queries[0].name.clone(), 60, RData::A(A::new(6,6,6,6)))); resp.to_vec().unwrap() }
            Kind::WrongName => { resp.queries[0].name = Name::from_ascii("evil.example.").unwrap(); resp.to_vec().unwrap() }
            Kind::Garbage => vec![0xff; 7],
            Kind::GarbageWrongSrc => { src.set_port(1); vec![0xff; 7] }
        };
        bytes.truncate(buf.len()); buf[..bytes.len()].copy_from_slice(&bytes);
        sh.log.push(format!("deliver {kind:?}"));
        Poll::Ready(Ok((bytes.len(), src)))
    }
    fn poll_send_to(&self, _cx: &mut Context<'_>, buf: &[u8], _target: SocketAddr) -> Poll<io::Result<usize>> {
        let mut sh = self.sim.sh.lock().unwrap(); sh.sent.push(buf.to_vec()); sh.log.push("send".into());
        if let Some(w) = sh.waker.take() { w.wake(); }
        Poll::Ready(Ok(buf.len()))
    }
}
impl RuntimeProvider for Sim {
    type Handle = TokioHandle; type Timer = TokioTime; type Udp = SimUdp; type Tcp = <TokioRuntimeProvider as RuntimeProvider>::Tcp;
    fn create_handle(&self) -> TokioHandle { self.rt.create_handle() }
    fn connect_tcp(&self, a: SocketAddr, b: Option<SocketAddr>, t: Option<Duration>) -> Pin<Box<dyn Send + Future<Output = io::Result<Self::Tcp>>>> { self.rt.connect_tcp(a, b, t) }
    fn bind_udp(&self, _l: SocketAddr, _s: SocketAddr) -> Pin<Box<dyn Send + Future<Output = io::Result<SimUdp>>>> { let sim = self.clone(); Box::pin(async move { Ok(SimUdp { sim }) }) }
}
async fn run(script: &[Kind]) {
    let server: SocketAddr = "192.0.2.53:53".parse().unwrap();
    let sim = Sim { sh: Arc::new(Mutex::new(Shared { script: script.iter().copied().collect(), ..Default::default() })), rt: TokioRuntimeProvider::new(), server };
    let mut stream = UdpClientStream::builder(server, sim.clone()).with_timeout(Some(Duration::from_secs(5))).build();
    let req = DnsRequest::from_query(Query::new(Name::from_ascii("www.example.").unwrap(), RecordType::A), DnsRequestOptions::default());
    let t0 = tokio::time::Instant::now();
    let r = stream.send_message(req).next().await;
    let sh = sim.sh.lock().unwrap();
    println!("{script:?}\n    => {} after {:?}; transmissions={} recv_calls={}", match r { Some(Ok(m)) => format!("Ok(answers={:?})", m.answers.iter().map(|r| r.data.to_string()).collect::<Vec<_>>()), Some(Err(e)) => format!("Err({e})"), None => "None".into() }, t0.elapsed(), sh.sent.len(), sh.recv_calls);
}
#[tokio::main(flavor = "current_thread", start_paused = true)]
async fn main() {
    use Kind::*;
    run(&[Genuine]).await;
    run(&[WrongIp, WrongPort, Genuine]).await;
    run(&[WrongId, WrongName, Genuine]).await;
    run(&[WrongId, WrongId, WrongId, Genuine]).await;
    run(&[GarbageWrongSrc, Genuine]).await;
    run(&[Garbage, Genuine]).await;
    run(&[]).await;
}
