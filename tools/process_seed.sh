#!/bin/sh
# tools/process_seed.sh <ID> <n> <demo file name> <destination dir in the tree> <demo command...>
# Lead-side pipeline for one candidate seeded change delivered in /tmp/seed-<ID>-out:
#   confirm (baseline with the patch in the scratch worktree) -> demo with the patch (must fail)
#   -> demo without (must pass) -> archive under seeded/<ID>-<n> -> remove the seeder's worktree
#   -> run the property's quick check against it (tools/mutant_run.sh).
# Prints a one-line verdict: SEED <ID>-<n> confirm=<rc> demo_with=<fail|pass> demo_without=<pass|fail> check_exit=<rc> key=<first key>
set -u
ID=$1; N=$2; DEMO=$3; DEST=$4; shift 4
OUT=/tmp/seed-$ID-out
WT=${CONFIRM_WT:-/var/tmp/confirm-wt}
cd /verif || exit 3
sh tools/confirm_seed.sh "$OUT/patch.diff" >/var/tmp/process-$ID-$N.confirm 2>&1
CRC=$?
mkdir -p "$WT/$DEST" && cp "$OUT/demo/$DEMO" "$WT/$DEST/"
( cd "$WT" && "$@" ) >/var/tmp/process-$ID-$N.with 2>&1 && W=pass || W=fail
( cd "$WT" && git apply -R "$OUT/patch.diff" && "$@" ) >/var/tmp/process-$ID-$N.without 2>&1 && WO=pass || WO=fail
if [ "$CRC" = 0 ] && [ "$W" = fail ] && [ "$WO" = pass ]; then
  sh tools/keep_seed.sh "$ID" "$N" "$OUT" "lead: confirm_seed.sh rc=0 (all 604 stable tests pass with the patch); demo fails with the patch and passes without ($*)" >/dev/null
  git -C /repo worktree remove --force /tmp/seed-$ID 2>/dev/null
  rm -rf "$OUT"
  sh tools/mutant_run.sh "$ID" "seeded/$ID-$N/patch.diff" quick >/var/tmp/process-$ID-$N.check 2>&1
  RC=$?
  KEY=$(grep -m1 '^VIOLATION' /var/tmp/process-$ID-$N.check | sed -n 's/.*key=\([^ ]*\).*/\1/p')
  echo "SEED $ID-$N confirm=$CRC demo_with=$W demo_without=$WO check_exit=$RC key=$KEY"
else
  echo "SEED $ID-$N NOT-KEPT confirm=$CRC demo_with=$W demo_without=$WO"
fi
