#!/bin/sh
# tools/mutant_run.sh <ID> <patch.diff> [tier]
# Applies a patch to a scratch COPY of /repo (never to /repo itself), builds the property's check
# against that copy in a scratch copy of the harness, runs it, prints its output and exit code,
# and removes the scratch source trees. The scratch build directory is kept per ID for
# incremental rebuilds; remove it with: rm -rf /var/tmp/verif-mut
set -u
ID="$1"; PATCH=$(readlink -f "$2"); TIER="${3:-quick}"
BIN=$(printf '%s' "$ID" | tr 'A-Z' 'a-z')
VROOT=$(cd "$(dirname "$0")/.." && pwd)
S=/var/tmp/verif-mut/$BIN
mkdir -p "$S"
rm -rf "$S/repo" "$S/verif"
rsync -a --exclude target --exclude .git /repo/ "$S/repo/"
mkdir -p "$S/verif"
rsync -a --exclude target --exclude .git --exclude replays --exclude evidence "$VROOT/" "$S/verif/"
( cd "$S/repo" && patch -p1 --no-backup-if-mismatch < "$PATCH" ) || { echo "PATCH-FAILED"; exit 3; }
sed -i "s|/repo/crates/|$S/repo/crates/|g" "$S/verif/harness/Cargo.toml"
export CARGO_NET_OFFLINE=true CARGO_TARGET_DIR="$S/target" VERIF_ROOT="$S/verif"
( cd "$S/verif/harness" && cargo build --offline --profile verif -p "$BIN" --quiet 2>"$S/build.log" ) || { tail -40 "$S/build.log"; echo "BUILD-FAILED"; exit 3; }
cd "$S/verif" && "$S/target/verif/$BIN" --tier "$TIER"
RC=$?
echo "MUTANT-RESULT id=$ID patch=$(basename "$PATCH") exit=$RC"
mkdir -p "$VROOT/replays/mutants" 2>/dev/null
cp -f "$S"/verif/replays/*.json "$VROOT/replays/mutants/" 2>/dev/null
rm -rf "$S/repo" "$S/verif"
exit $RC
