#!/bin/sh
# tools/mutant_run.sh <ID> <patch.diff> [tier]
# Applies a patch to a scratch COPY of /repo (never to /repo itself), builds the property's check
# against that copy in a scratch copy of the harness, runs it, prints its output and exit code,
# and restores the scratch copy. The scratch trees and build directory are kept per ID for
# incremental rebuilds; remove them when done: rm -rf /var/tmp/verif-mut/<id>
set -u
ID="$1"; PATCH=$(readlink -f "$2"); TIER="${3:-quick}"
BIN=$(printf '%s' "$ID" | tr 'A-Z' 'a-z')
VROOT=$(cd "$(dirname "$0")/.." && pwd)
S=/var/tmp/verif-mut/$BIN
mkdir -p "$S"
# The scratch copies persist between runs and are re-synchronised by CONTENT without preserving
# mtimes: a file restored to its original content gets a fresh mtime, so cargo rebuilds it
# (with preserved mtimes cargo would keep the object code of the previous mutant).
mkdir -p "$S/repo" "$S/verif"
rsync -rlpgoD --checksum --delete --exclude target --exclude .git /repo/ "$S/repo/"
rm -rf "$S/verif/replays" "$S/verif/evidence"
rsync -rlpgoD --checksum --delete --exclude target --exclude .git --exclude replays --exclude evidence --exclude Cargo.toml.scratch "$VROOT/" "$S/verif/"
( cd "$S/repo" && patch -p1 --no-backup-if-mismatch < "$PATCH" ) || { echo "PATCH-FAILED"; exit 3; }
sed -i "s|/repo/crates/|$S/repo/crates/|g" "$S/verif/harness/Cargo.toml"
export CARGO_NET_OFFLINE=true CARGO_TARGET_DIR="$S/target" VERIF_ROOT="$S/verif"
( cd "$S/verif/harness" && cargo build --offline --profile verif -p "$BIN" --quiet 2>"$S/build.log" ) || { tail -40 "$S/build.log"; echo "BUILD-FAILED"; exit 3; }
cd "$S/verif" && "$S/target/verif/$BIN" --tier "$TIER"
RC=$?
echo "MUTANT-RESULT id=$ID patch=$(basename "$PATCH") exit=$RC"
mkdir -p "$VROOT/replays/mutants" 2>/dev/null
cp -f "$S"/verif/replays/*.json "$VROOT/replays/mutants/" 2>/dev/null
# undo the patch in the scratch copy right away (content-sync from /repo gives fresh mtimes)
rsync -rlpgoD --checksum --delete --exclude target --exclude .git /repo/ "$S/repo/"
exit $RC
