#!/bin/sh
# tools/confirm_seed.sh <patch.diff>
# Confirms, in the scratch worktree /var/tmp/confirm-wt (created on first use, target dir kept for
# incremental builds), that a candidate seeded change applies, compiles and leaves every
# baseline-stable test passing. Leaves the worktree WITH the patch applied so that the
# demonstration can be run next (then: git -C /var/tmp/confirm-wt checkout -- . && git clean -fd).
set -u
PATCH=$(readlink -f "$1")
WT=${CONFIRM_WT:-/var/tmp/confirm-wt}
if [ ! -d "$WT" ]; then git -C /repo worktree add --detach "$WT" HEAD >/dev/null || exit 3; fi
cd "$WT" || exit 3
git checkout -q --detach "$(git -C /repo rev-parse HEAD)" 2>/dev/null
git checkout -- . && git clean -fdq -e target
git apply "$PATCH" || { echo "CONFIRM: patch does not apply"; exit 3; }
mkdir -p "$WT/target"
cargo nextest run --workspace --no-fail-fast --offline > "$WT/target/confirm.log" 2>&1
python3 /verif/tools/compare_baseline.py "$WT/target/confirm.log"
RC=$?
echo "CONFIRM: baseline-with-patch rc=$RC (0 = every stable test still passes)"
exit $RC
