#!/usr/bin/env python3
"""compare a `cargo nextest run` log with the stable_pass list of /root/.vp/BASELINE.json"""
import json, re, sys
log = open(sys.argv[1]).read()
passed = set()
failed = set()
for m in re.finditer(r'^\s+(PASS|FAIL|LEAK|TIMEOUT|SIGABRT|SIGSEGV)\s+\[[^\]]*\]\s+(?:\(\s*\d+/\d+\)\s+)?(\S+)\s+(\S+)', log, re.M):
    name = m.group(2) + "::" + m.group(3)
    (passed if m.group(1) in ("PASS", "LEAK") else failed).add(name)
stable = set(json.load(open('/root/.vp/BASELINE.json'))['stable_pass'])
missing = sorted(stable - passed)
print(f"log: {len(passed)} passed, {len(failed)} failed; stable baseline {len(stable)}; stable-but-not-passed: {len(missing)}")
for n in missing:
    print("  NOT PASSED:", n, "(FAILED)" if n in failed else "(not run)")
sys.exit(1 if missing else 0)
