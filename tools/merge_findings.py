#!/usr/bin/env python3
"""known_findings.d/<ID>.json (one list per property, edited by hand) -> known_findings.json (what the checks read)."""
import json, glob, os
ROOT = os.path.dirname(os.path.dirname(os.path.abspath(__file__)))
out = []
for p in sorted(glob.glob(os.path.join(ROOT, "known_findings.d", "*.json"))):
    part = json.load(open(p))
    assert isinstance(part, list), p
    for e in part:
        assert {"property", "status", "key", "what"} <= set(e), (p, e)
        assert e["status"] in ("open", "fixed")
    out += part
tmp = os.path.join(ROOT, "known_findings.json.tmp%d" % os.getpid())
json.dump(out, open(tmp, "w"), indent=1)
os.replace(tmp, os.path.join(ROOT, "known_findings.json"))
print(len(out), "entries")
