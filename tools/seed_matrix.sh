#!/bin/sh
# tools/seed_matrix.sh [ID ...]
# Runs every archived seeded change (seeded/<ID>-<n>/patch.diff, or the ported patch when present)
# against the quick tier of its property's check (via tools/mutant_run.sh, i.e. on a scratch copy of
# /repo) and writes one line per seed to seeded/MATRIX.tsv:
#   seed <TAB> exit <TAB> number of VIOLATION lines <TAB> first violation key
# A seed is "caught" when the check exits 1 with a VIOLATION line. Exit 3 = patch/build failure.
# Exit 0 with `equivalent-since:<sha>` in the key column: the seed's meta.json carries `equivalent_since`
# - a later fix in /repo made the seeded change behaviour-preserving (its own demo passes with the
# patch applied); it was caught before that commit (see the property's RESULTS.md). Not a miss.
# Exit 0 with `other-property:<ID>`: the seeded change breaks a clause that belongs to another property's
# statement (meta.json `caught_by_property`); that property's check catches it.
set -u
VROOT=$(cd "$(dirname "$0")/.." && pwd)
cd "$VROOT"
OUT=seeded/MATRIX.tsv
TMP=$(mktemp)
if [ $# -gt 0 ]; then SEL="$*"; else SEL=$(ls seeded | sed -n 's/^\(C[0-9][0-9]\)-[0-9]*$/\1/p' | sort -u); fi
for ID in $SEL; do
  for D in seeded/$ID-*; do
    [ -d "$D" ] || continue
    P=$D/patch.diff
    for ALT in "$D"/patch-ported-*.diff; do [ -f "$ALT" ] && P=$ALT; done
    LOG=$(mktemp)
    sh tools/mutant_run.sh "$ID" "$P" quick >"$LOG" 2>&1
    RC=$?
    N=$(grep -c '^VIOLATION' "$LOG")
    KEY=$(grep -m1 '^VIOLATION' "$LOG" | sed -n 's/.*key=\([^ ]*\).*/\1/p')
    if [ "$RC" = 0 ] && [ -f "$D/meta.json" ]; then
      EQ=$(sed -n 's/.*"equivalent_since": *"\([^"]*\)".*/\1/p' "$D/meta.json" | head -1)
      [ -n "$EQ" ] && KEY="equivalent-since:$EQ"
      OP=$(sed -n 's/.*"caught_by_property": *"\([^"]*\)".*/\1/p' "$D/meta.json" | head -1)
      [ -n "$OP" ] && KEY="other-property:$OP"
    fi
    printf '%s\t%s\t%s\t%s\n' "$(basename "$D")" "$RC" "$N" "$KEY" >>"$TMP"
    printf '%s\t%s\t%s\t%s\n' "$(basename "$D")" "$RC" "$N" "$KEY"
    rm -f "$LOG"
  done
done
# merge: replace the lines of the seeds just run, keep the others
if [ -f "$OUT" ]; then
  cut -f1 "$TMP" | sort -u >"$TMP.ids"
  grep -v -F -w -f "$TMP.ids" "$OUT" >>"$TMP" || true
  rm -f "$TMP.ids"
fi
sort -u "$TMP" >"$OUT"
rm -f "$TMP"
