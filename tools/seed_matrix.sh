#!/bin/sh
# tools/seed_matrix.sh [ID ...]
# Runs every archived seeded change (seeded/<ID>-<n>/patch.diff, or the ported patch when present)
# against the quick tier of its property's check (via tools/mutant_run.sh, i.e. on a scratch copy of
# /repo) and writes one line per seed to seeded/MATRIX.tsv:
#   seed <TAB> exit <TAB> number of VIOLATION lines <TAB> first violation key
# A seed is "caught" when the check exits 1 with a VIOLATION line. Exit 3 = patch/build failure.
set -u
VROOT=$(cd "$(dirname "$0")/.." && pwd)
cd "$VROOT"
OUT=seeded/MATRIX.tsv
TMP=$(mktemp)
if [ $# -gt 0 ]; then SEL="$*"; else SEL=$(ls seeded | sed -n 's/^\(C[0-9][0-9]\)-[0-9]*$/\1/p' | sort -u); fi
for ID in $SEL; do
  for D in seeded/$ID-*; do
    [ -d "$D" ] || continue
    P=$D/patch.diff
    for ALT in "$D"/patch-ported-*.diff; do [ -f "$ALT" ] && P=$ALT; done
    LOG=$(mktemp)
    sh tools/mutant_run.sh "$ID" "$P" quick >"$LOG" 2>&1
    RC=$?
    N=$(grep -c '^VIOLATION' "$LOG")
    KEY=$(grep -m1 '^VIOLATION' "$LOG" | sed -n 's/.*key=\([^ ]*\).*/\1/p')
    printf '%s\t%s\t%s\t%s\n' "$(basename "$D")" "$RC" "$N" "$KEY" >>"$TMP"
    printf '%s\t%s\t%s\t%s\n' "$(basename "$D")" "$RC" "$N" "$KEY"
    rm -f "$LOG"
  done
done
# merge: replace the lines of the seeds just run, keep the others
if [ -f "$OUT" ]; then
  cut -f1 "$TMP" | sort -u >"$TMP.ids"
  grep -v -F -w -f "$TMP.ids" "$OUT" >>"$TMP" || true
  rm -f "$TMP.ids"
fi
sort -u "$TMP" >"$OUT"
rm -f "$TMP"
