#!/bin/sh
# $1 = repo dir, $2 = log
cd "$1" && cargo test --no-fail-fast --offline --workspace --features hickory-proto/dnssec-ring,hickory-proto/serde,hickory-net/dnssec-ring,hickory-resolver/dnssec-ring,hickory-resolver/recursor,hickory-resolver/serde,hickory-server/sqlite,hickory-server/dnssec-ring,hickory-server/recursor,hickory-server/resolver,hickory-server/toml,hickory-integration/sqlite,hickory-integration/dnssec-ring,hickory-dns/sqlite,hickory-dns/dnssec-ring,hickory-dns/recursor,hickory-dns/resolver > "$2" 2>&1
grep -E "^test .*(FAILED|failed)$|^test .* \.\.\. FAILED" "$2" | sed 's/ \.\.\. FAILED//' | sort -u > "$2.failed"
grep -cE "^test .* \.\.\. ok" "$2" > "$2.okcount"
