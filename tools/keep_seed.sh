#!/bin/sh
# tools/keep_seed.sh <ID> <n> <outdir> "<what I ran / results>"  : archive a confirmed seeded change
set -u
ID=$1; N=$2; OUT=$3; RAN=$4
D=/verif/seeded/$ID-$N
mkdir -p "$D"
cp "$OUT/patch.diff" "$D/patch.diff"
rm -rf "$D/demo"; cp -r "$OUT/demo" "$D/demo"
python3 - "$ID" "$OUT/meta.json" "$D/meta.json" "$RAN" <<'PY'
import json, sys
i, src, dst, ran = sys.argv[1:5]
try:
    m = json.load(open(src))
except Exception as e:
    m = {"property": i, "note": "seeder meta.json unreadable: %s" % e}
m["property"] = i
m["confirmed_by_lead"] = ran
json.dump(m, open(dst, "w"), indent=1)
PY
echo kept "$D"
