#!/usr/bin/env python3
"""Regenerates MANIFEST.json from the table below (one entry per property)."""
import json, os, subprocess
ROOT = os.path.dirname(os.path.dirname(os.path.abspath(__file__)))

# id -> dict(level, engine, technique, text, note, design)   (built checks only)
CHECKS = {
 "C03": dict(level="exploration", engine="E-ENUM",
   technique="exhaustive bounded enumeration (every message of a bounded family x every size limit) against an independent wire walker",
   text="Every message of a size-diverse bounded family (<=k records per section, EDNS/TSIG/TC on/off) is encoded under EVERY limit 12..len+2 by the real encoder, and the real server path (Catalog -> MessageResponse::encode) is driven for RRsets of 1..N records x advertised payloads x UDP/TCP; each output is judged by an independent RFC 1035 walker (length, no leftover bytes, counts, section prefixes, TC). Exhaustive within the stated alphabet and bounds, no sampling.",
   note="Trusted: vref::wire walker; record alphabet (7 shapes) and <=3 records per section bound the message space; values outside are not covered.",
   design="6/C03"),
 "C16": dict(level="model_checking", engine="E-SCHED+E-STATE",
   technique="exhaustive enumeration of datagram arrival schedules (all sequences up to length 4/5 over 16 datagram kinds x socket generations, under virtual time) and explicit-state BFS over multiplexer event interleavings on the real code, against a reference acceptance predicate / routing table",
   text="(a) the real UdpClientStream over a scripted socket under the paused tokio clock: every sequence of <=4 (quick) / <=5 (thorough) forged/genuine datagrams incl. late replies to earlier sockets and tie cases; (b) the real DnsMultiplexer polled manually: BFS with state matching over send/deliver/duplicate/unknown-id/undecodable/cancel/timer/error/end/poll events for <=3 requests to depth 9/12. Every schedule/transition is executed on the implementation and judged by a reference acceptance predicate computed from raw bytes and a reference routing table.",
   note="Trusted: vref::wire, the scripted socket/stream and hand-fired timers faithfully stand in for the OS; event-level (not thread-level) schedules; ids are those observed on the wire.",
   design="6/C16, 11"),
 "C01": dict(level="exploration", engine="E-ENUM",
   technique="exhaustive bounded enumeration of byte strings (all short strings, all strings over a structural alphabet, complete single-edit neighbourhoods of a seed corpus, parameterised growth families) through every decoding entry point, with a deterministic work counter",
   text="All byte strings of length <=2/3 (full byte alphabet) and <=6/7 (14-octet structural alphabet) as message body behind 15 headers, as record, as name at every offset and as RDATA of 89 type codes; the complete 1-edit (thorough: 2-edit over S) neighbourhoods of 136/248 encoded seed messages; 22 adversarial growth families up to 65,535 octets; through Message::from_vec, Request::from_bytes, DnsResponse::from_buffer, the TSIG splitter, Record/Name/RData::read. Oracle: returns (no panic, watchdog), decoder ticks <= 256*len+4096 and no super-linear growth curve, every decoded name <=255 octets / labels <=63 measured from the label iterator.",
   note="Trusted: the tick hook counts all decoder loop work; constants calibrated from a linear worst-case family (147.5 ticks/octet). Not covered: strings >7 octets outside the edit neighbourhoods and growth families; wall-clock time.",
   design="6/C01, 11"),
 "C02": dict(level="exploration", engine="E-ENUM",
   technique="exhaustive bounded enumeration of messages built from a record alphabet (all placements of <=2/3 records, header/EDNS/TSIG products, compression sweeps) and of all accepted byte strings of the C01 families, against an independent wire walker and RFC-written RDATA octets",
   text="Direction 1: every message of <=2 (quick) / <=3 (thorough) records from a 76-shape RDATA alphabet (octets hand-written from the RFCs) in all section placements x questions x EDNS x TSIG, all 2^7 flags x opcodes x rcodes, compression sweeps n=0..200 and pointer offsets around 0x3fff; oracle decode(encode(m))==m field by field with case-sensitive names plus RFC RDATA octets found by vref::wire. Direction 2: every string of the C01 families that decodes and re-encodes: decode(encode(decode(b)))==decode(b) and octet-identical RDATA for non-compressible types.",
   note="Trusted: vref::wire, the hand-written RFC RDATA octets. OPT RDATA and pointer expansion inside non-compressible RDATA are observations (as upstream's fuzz target). Messages of >3 records only in the sweeps.",
   design="6/C02, 11"),
 "C04": dict(level="exploration", engine="E-ENUM",
   technique="exhaustive enumeration of all names over a small octet alphabet and of ALL ordered pairs (and triples) of them against a reference comparator; all constructors at the length boundaries; wire/text round trips at every offset and compression scenario",
   text="All absolute/relative names of 0..2(3) labels over 9-15 boundary octets plus 62/63-octet labels: all ordered pairs (1e9 quick, 5.6e9 thorough) for eq/hash/cmp of Name, LowerName, RrKey, Label against vref::name (ASCII folding, RFC 4034 6.1 order), all triples for transitivity; wire round trip of 25 k names x 5 offsets x 10 compression scenarios x 3 encodings preserving case; text round trip of 384 k host-style names; 720 label-length vectors around 63/255 through every constructor and combinator.",
   note="Trusted: vref::name. Octets outside the alphabets, IDNA and relative names on the wire are not covered.",
   design="6/C04, 11"),
 "C05": dict(level="exploration", engine="E-ENUM",
   technique="exhaustive enumeration of small RRsets (every ordered sequence with repetition of 1..3/5 values per type, every input order, duplicates, mixed case) x RRSIG parameter tuples, byte-compared with an independent RFC 4034/4035/6840 canonical encoder, plus sign/verify cross-checks with ring",
   text="2,177 RRset shapes of 19/22 types x owners x case swaps x TTL patterns x classes x RRSIG tuples x every Labels value: TBS bytes must equal vref::canon (RRSIG RDATA with lower-cased signer, distinct RRs in canonical RDATA order, wildcard-reduced lower-cased owner, original TTL, 6.2 canonical RDATA). Every shape is signed by the built-in signer and verified by the built-in verifier and by ring over the reference bytes, and reference bytes signed with ring must verify with the built-in verifier, for RSASHA256/512, ECDSA P-256/P-384, Ed25519.",
   note="Trusted: vref::canon, ring. RDATA outside the per-type alphabets, RSASHA1/DSA not covered.",
   design="6/C05, 11"),
 "C11": dict(level="exploration", engine="E-ENUM",
   technique="exhaustive enumeration of structured request products, all prefixes and single-byte substitutions of 40 representative requests, all short strings over a structural alphabet, an access-list product, interleaved multi-source histories and an updatable-zone family, x catalog shapes x access lists x UDP/TCP, each followed by a probe query, against a reference front door written from the statement",
   text="3.0 M (quick) / 101 M (thorough) raw requests through the real server front door (Server::with_access + hook verif_handle_raw_request -> Catalog -> in-memory / Sqlite zones): 15 catalog shapes (nested, siblings, root, empty, chained skip handlers, transfers allowed, mixed-case origins, secondary, NSID) x 14 access rows plus an exhaustive product of 6 sources x deny/allow subsets of a 10-net alphabet (18.8 k / 186 k configurations) x UDP/TCP x ids/opcodes 0..15/flags/16 section-count variants/33 qnames plus all names of <=3 labels over {*,a,x,z} (pointer forms, 255/256-octet names)/qtypes/qclasses/16 EDNS variants, EDNS option bodies x version, every prefix and substitution of 40 seeds (thorough: all 256 values and pairs), all strings over S as messages and behind fixed headers, 65 KB requests, 99 k pair (8.3 M triple) histories of 7 sources on one server vs the request alone, 2,160 UPDATE/TSIG cases on an updatable zone. Quick keeps every dimension with its smallest non-trivial value set; the deepest bounds (all 14 access rows x every opcode, all shapes x class/type/EDNS, NS/MX/AAAA, length-5/6 strings, long option bodies, triples) are thorough-only. Oracle: 0 responses iff <12 octets or QR=1 else exactly 1 with QR and id; decoded question echo; rcode in the SET the statement admits; answering zone = longest suffix (TXT markers, SOA/NS owners); no panic; probe answer unchanged; interleaved response = response alone.",
   note="Trusted: the reference front door (crates/c11/src/frontdoor.rs), vref::wire. Three-valued 'body parses' and three readings of the access-list semantics, so open inputs are only tolerated, never demanded. DoT/DoH/DoQ front ends, the socket loops (sanitize_src_address, response destination) and External (forwarder) zones are not covered. coverage.family_wall_s_and_cases gives wall time and case count per family.",
   design="6/C11, 11"),
 "C18": dict(level="fault_enumeration", engine="E-ENUM+E-SCHED",
   technique="exhaustive enumeration of fault assignments to 1..4 scripted servers x strategies x concurrency x TCP availability, deviation-bounded (d<=2/3) latency/fault schedules, and caller arrival/cancellation plans, on the real pool under virtual time",
   text="The real NameServerPool/NameServer over a scripted ConnectionProvider under the paused tokio clock (hook clock routed to it, SRTT pinned): 115 k / 938 k runs of the coarse product {answer, NXDOMAIN, TC-then-TCP, timeout, io-error, busy} ^ n x ordering strategies x num_concurrent_reqs x TCP x trust; all schedules with <=2/3 deviations from 'every server answers fast' over a 15-symbol deviation alphabet; 2-3 identical callers with arrivals and one cancellation around every upstream event. Oracle: completes within options.timeout (virtual), healthy answer whenever every admissible reading of the search reaches one before the deadline, trust rule for NXDOMAIN, TC never returned when TCP is healthy, identical callers share one exchange.",
   note="Trusted: the scripted connections stand in for the network; event-level schedules; DecayingSrtt reads the real clock (affects only later ordering under QueryStatistics, excluded from digests).",
   design="6/C18, 11"),
 "C19": dict(level="fault_enumeration", engine="E-ENUM+E-FAULT",
   technique="exhaustive enumeration of small simulated internets from a zone-graph grammar x hostile-zone injections (kind x section, all singles; pairs thorough) x follow-up queries on the same recursor, plus parameterised termination families, on the real Recursor under virtual time",
   text="120 delegation graphs (in-zone/sibling/parent/child NS names, with/without glue, cycles) x queries x recursion limits; every graph x hostile zone x 9 injection kinds x 3 sections with follow-ups on the same recursor (44 k / 373 k cases); lame-server kinds; CNAME chains/loops, NS-for-NS chains, glueless cycles, delegation depth as growth families; stub alias chasing. Oracle: provenance of every returned record (published data or inside the hostile zone's bailiwick), no marker/denied address contacted or returned, follow-ups equal the attacker-free run, exchanges below an explicit generous bound and constant in n beyond the configured limit.",
   note="Trusted: the simulated internet; hostility is per zone; non-validating recursor only.",
   design="6/C19, 11"),
 "C20": dict(level="exploration", engine="E-ENUM",
   technique="exhaustive enumeration of ALL layout vectors of an independent master-file printer for 1-record files, ordered pairs (and triples) of records, plus all short garbage strings, complete single-edit neighbourhoods of seed files and growth families, through the real zone-file parser",
   text="92 records (all 22 parser-supported types x value shapes x owner/TTL/class envelopes) printed under every legal layout vector (name forms, TTL/class inheritance and order, $ORIGIN/$TTL, separators, comments, parentheses over 1-3 lines, quoted/unquoted strings, line endings): 5.5 M single-record and 6.6 M (quick) / 104 M (thorough) two-record files, 11.6 M triples; the parsed record set must equal the printed one. Further valid-direction families: chain triples of plain records x every state-carrying layout (4.0 M; depth 4 thorough 28 M), RRsets, CH/HS, names at the 63/255-octet limits relative to long origins, TTL tokens, the file-store loader differential (file -> FileZoneHandler -> loaded zone and AXFR == records of the file, 66 k zone files), $INCLUDE splits (11.5 k + 240 through the store), and a token-splitting dimension: the trailing hex/base64 field of every TLSA/SMIMEA/DS/CERT shape written as 2 tokens cut at every character position (3 tokens at every pair of positions for TLSA/DS; thorough: everywhere and for 64..600-octet blobs) x 4 separators incl. line breaks in parentheses must load to the un-split record (295 k quick / 18.2 M thorough). Malformed: all strings of length <=5/6 over 15 characters, 222 k single edits of 63 seeds (14 M double edits thorough), 25 growth families to 2^16, $INCLUDE cases; parse() must return, never panic or hang.",
   note="Trusted: vref::masterfile printer (declares a layout illegal when it would not denote the record). \\DDD escapes and escapes in unquoted strings are observations; splitting SSHFP/OPENPGPKEY blobs (their RFCs are silent about inner white space) and the $INCLUDE origin argument are only counted.",
   design="6/C20, 11"),
 "C06": dict(level="exploration", engine="E-ENUM+E-STATE",
   technique="exhaustive enumeration of every single-bit flip and single-field replacement of honest (answer, DNSKEY) response pairs x a clock grid incl. the u32 wrap, and of all validate/advance histories up to depth 4/5 on a shared handle, against an independent only-if acceptance predicate (reference signed data + ring)",
   text="63 base cases (7 RRset kinds x ED25519/ECDSAP256/RSASHA256 x 4 key layouts incl. three equal-tag keys) signed by the real signer and validated by the real DnssecDnsHandle over a scripted upstream with a virtual validator clock (wall clock via SimProvider, validation-cache clock via the hook): every single-bit flip of both responses (253 k), field replacements / re-made RRSIGs / DNSKEY-set edits, clock grid around inception/expiration incl. windows across 2^32 and lengths 0,1,2^31-1,2^31,2^31+1, and all op sequences of length 4/5 over {validate x 4 worlds, clone, advance...}. Secure is allowed only if the 12-clause reference predicate holds on the mutated bytes at the time of each validate; Secure TTL <= expiration - now.",
   note="Trusted: vref::sigref (canonical signed data, key tag, RFC 1982, ring verification). ECDSA nonces make flip-outcome counts vary by +-2 between runs (verdict and keys do not). Multi-bit mutations other than field replacements not covered.",
   design="6/C06, 11"),
 "C07": dict(level="fault_enumeration", engine="E-FAULT",
   technique="fault enumeration: record the upstream responses of honest validations in small signed hierarchies served by the real signing/server code, then enumerate every record-level fault and response-level attacker move at every position (all singles, bounded pairs), positions closed over the queries observed under attack, against ground truth in the published zones",
   text="9 (quick) / 12 (thorough) hierarchies (all signed; unsigned leaf with NSEC / NSEC3 / opt-out proof; signed next to insecure sibling; two keys with DS for one; unsupported-only DS; island; key-tag collision; ...) x 76/82 targets, 1,414 fault positions after closure: L1 faults at every record (drop, bit flip, RDATA/owner/TTL change, strip RRSIGs, re-sign with 7 key choices), L2 moves at every response (forge unsigned/signed, unsupported DS, wildcard replay, strip section, rcode change, SOA + forged NSEC, replace-by-denial over type x owner x signedness); 148 k singles, 130 k / 910 k pairs, 27 k server cases (validating forwarder: SERVFAIL for CD=0, AD only when all Secure). A record returned Secure must be published data signed by its own zone; Insecure only where the published hierarchy has an insecure delegation; everything else error/Bogus.",
   note="Trusted: the honest router stands in for a recursive upstream; published zones are ground truth. Quick runs pairs only for positive-A / DS / DNSKEY queries; general L2xL2 pairs and triples not enumerated. Hierarchies deeper than 3 zones not covered.",
   design="6/C07, 11"),
 "C12": dict(level="model_checking", engine="E-STATE",
   technique="explicit-state breadth-first search over UPDATE message histories executed on the real SqliteZoneHandler through Catalog (canonical zone-state keys, only conforming successors expanded), every transition compared with an RFC 2136 / RFC 1982 reference model that parses the raw request bytes",
   text="87 prerequisite atoms x 115 update atoms (every form of RFC 2136 3.2.4 / 3.4.2.6 incl. malformed variants) over a 5-owner universe: M1 (<=1 prerequisite x <=1 update, 10,208 messages), M1-core, M1-serial and M2 (<=2 prerequisites x <=3 updates in every order) from 7 root zones (minimal, rich, delegation, wildcard, serials 0 / 2^31-1 / 2^32-2); quick 5,260 states / 610 k transitions, thorough 161 k states / 37.5 M transitions, each transition a TSIG-signed wire message through the real handler. Per transition: rcode in the acceptable set, rejected => zone unchanged, accepted => one of the acceptable reference zones, exactly one SOA / apex NS / CNAME alone, serial strictly advanced (RFC 1982) iff content changed.",
   note="Trusted: vref::update (forks where RFC prose and pseudocode disagree, e.g. last-NS protection), canonical key argument backed by a same-key/different-history differential and a rebuild-vs-put-back self-test. DNSSEC-enabled sub-grid and >4 owners not covered.",
   design="6/C12, 11"),
 "C13": dict(level="fault_enumeration", engine="E-FAULT",
   technique="fault enumeration over honest TSIG-signed UPDATE/AXFR requests and their replies: every single-bit flip, byte substitution, truncation, extension, count edit and structural TSIG edit x clock offsets (window edges and integer-width boundaries) x key sets x AXFR policies, against an independent RFC 8945 reference verifier (digest rebuilt from raw bytes, HMAC via ring)",
   text="1.17 M (quick) / 2.9 M (thorough) cases through the real Catalog + SqliteZoneHandler with the virtual server clock: Part A every mutant of 4 honest requests x window offsets x 5 key sets x 3 AXFR policies; Part B unmodified requests with valid MAC x time-signed values near 0, 2^16, 2^32, 2^48-1 x clock offsets +-(2^15..2^33)+-{0,1,F,F+1}; Part C every mutant of 20 accepted replies fed to the client-side TSigVerifier. A request may take effect (zone changed / AXFR data returned) only if the reference verifier accepts those bytes at that clock; accepted requests' replies verify; a modified reply is accepted only if the reference accepts it; no panic.",
   note="Trusted: vref::tsig, ring HMAC. Multi-message AXFR chaining and double-byte edits not covered.",
   design="6/C13, 11"),
 "C14": dict(level="fault_enumeration", engine="E-FAULT",
   technique="crash-point enumeration: for every update history over a small message alphabet, every durable prefix of the journal row sequence (observed through a second read-only connection at each journal-write hook point and acknowledgement) is recovered with the real recovery path and compared with the crash-free run; continuations and a second crash enumerated",
   text="1,885 histories of <=3 messages (quick; <=4 thorough, two start zones) on a journal-backed SqliteZoneHandler; at every journal_insert_record hook point and acknowledgement the durable row count is read and a real SOA query is answered (in-flight serials); for every distinct crash point a fresh journal with exactly those rows is recovered with recover_with_journal (46 k / 979 k recoveries and continuation steps). Recovered content+serial must equal the crash-free state before or after the in-flight message, never below any answered serial; every continuation message must give the same rcode and state as on the never-crashed handler; a second crash inside the continuation is enumerated.",
   note="Trusted: SQLite's atomic commit per statement/transaction (crash = what the second connection sees committed); serial-wrap regimes and torn pages not covered.",
   design="6/C14, 11"),
 "C15": dict(level="model_checking", engine="E-STATE",
   technique="explicit-state breadth-first search to the fixpoint of canonical states over insert/get/clear/clear_query/advance histories executed on the real ResponseCache with an explicit virtual 'now', x 38 TTL-bound configurations, every transition and a look-ahead probe sequence compared with a reference cache model written from the statement",
   text="Queries (n1,A),(n1,AAAA),(n2,TXT); 33 result shapes (positive with 1-2 records TTL 0/1/2/5, CNAME+target, CNAME only, authority/additional with larger/smaller TTLs, answers without the query type; negative with negative_ttl None/0/1/3/5; 9 error kinds); dt in {0,400,600,1000,2000,4000} ms; 38 global/per-type positive/negative bound configurations with min<=max. Grids: single query x all configurations x full alphabets to fixpoint (26 k states / 933 k transitions), pair and triple grids on sub-alphabets (quick 190 k states / 4.7 M transitions; thorough 1.7 M states / 58 M transitions), far TTLs around the one-day default and u32::MAX; a matching-free cross-run reaches exactly the BFS's states. Oracle: a hit is the last cacheable insert, not later than L, every TTL = clamped stored TTL - whole seconds elapsed, never increases; negative bounds; transient errors never returned.",
   note="Trusted: vref::cache (DESIGN's per-type-clamped reading of L; the unclamped reading is logged as an observation), canonical-key argument backed by the same-key/different-history differential and the matching-free cross-run. `now` is 30 days ahead of the real clock so moka's own expiry never fires. min>max configurations panic in insert: outside the statement, observation.",
   design="6/C15, 11"),
 "C17": dict(level="model_checking", engine="E-STATE",
   technique="explicit-state breadth-first search to the fixpoint over every environment answer at every poll_read / poll_write / poll_flush / driver decision point of the real TcpStream state machine (and its TcpClientStream / TimeoutStream wrappers), with state matching validated by a matching-free exhaustive cross-run, against a two-byte-length framing reference",
   text="The real TcpStream::from_stream + BufDnsStreamHandle over a scripted socket polled by hand: at every poll_read Pending / every n in 1..=min(buf,remaining) / EOF at every byte position / I/O error; at every poll_write[_vectored] Pending / every n in 1..=offered across both slices / error; flush Ok/Pending/error; messages handed over at every driver point; 1..3 messages of lengths {1,2,3,255} (quick) / {1,2,3,255,256,300} (thorough) plus zero-length frames; read, write, joint, TcpClientStream and TimeoutStream grids: 711 k states / 19 M transitions quick, 330 M transitions thorough, all to fixpoint; cross-run of 29 M / 72 M unmatched runs reaches exactly the BFS states. Oracle: yielded items are exactly the framed messages in order; EOF at a boundary ends cleanly, inside a prefix or body errors; accepted bytes are always a prefix of len16(m1) m1 len16(m2) m2 ...; every fair continuation completes.",
   note="Trusted: vref::frame; Ok(0) writes excluded (outside the statement); waker registration / lost wake-ups are not judged (the driver always re-polls); messages >65,535 not covered.",
   design="6/C17, 11"),
 "C08": dict(level="exploration", engine="E-ENUM",
   technique="exhaustive enumeration of all zones over the small name universe (signed by the real server code) x queries x claims x EVERY non-empty subset of the zone's genuine NSEC records through the real verify_nsec, judged by ground truth in the zone (soundness) and literal RFC 4035/6840 entailment; the server's own proofs replayed end to end through the real validator (completeness); decision-level cases bound to the real path by end-to-end replays",
   text="3,307 single-zone and 114 parent/child worlds (d=2, K<=2 over 11 node kinds; thorough larger) x 41 query names x {A,TXT,DS,NS,CNAME} x claims {NXDOMAIN, NODATA, expansion of each authoritative wildcard RRset} x soa {each apex, absent} x every non-empty subset of the genuine NSEC chain: 24.5 M (quick) / 458 M (thorough) verify_nsec calls (hook wrapper). Soundness: Secure => the claim is true in the published zone (vref::denial::truth) and the subset is the required proof; completeness: the real server's DO=1 negative / wildcard answer validates Secure through DnssecDnsHandle; binding: every Secure-but-false case and a 1/64 slice is rebuilt from the genuine signed records and replayed through the real DnssecDnsHandle (0.7 M replays, verdicts must agree).",
   note="Trusted: vref::zone / vref::denial (self-tested on RFC 4035 app. A/B, RFC 4592, RFC 6840 4.1 counter-examples; 'subset proves claim => claim true' is asserted as a reference-consistency check, exit 2). Zones with >3 non-apex owners and DNAME not covered.",
   design="6/C08, 11"),
 "C09": dict(level="exploration", engine="E-ENUM",
   technique="as C08 for NSEC3: every subset (size <=3 for the larger zones) of the genuine NSEC3 records of zones signed by the real server code under two parameter sets with/without opt-out, through the real verify_nsec3, plus parameter mixtures, re-owned records and iteration limits as configuration, judged by ground truth / RFC 5155 section 8 entailment and replayed end to end",
   text="1,963 zones -> 2.6 k signed worlds ((0,-) without opt-out; (1,ab) with opt-out where an insecure delegation exists; thorough all four) x queries x claims {NXDOMAIN, NODATA, wildcard expansion, opt-out DS NODATA} x every subset of the NSEC3 chain: 16.8 M (quick) / 285 M (thorough) verify_nsec3 calls; mixtures of records signed under different iterations / salts and records re-owned under another zone must never be Secure; iterations 0..3 x (soft,hard) limits {(1,2),(0,0),(2,2)} (above soft never Secure, above hard Bogus), also end to end; completeness of the server's own proofs through the real validator.",
   note="Trusted: vref::denial (RFC 5155 app. A hash vectors and app. B examples as self-tests). Worlds whose real NSEC3 chain differs from RFC 5155 7.1 (a listed server defect) are skipped for soundness. Hash collisions, iterations > 3 not covered.",
   design="6/C09, 11"),
 "C10": dict(level="exploration", engine="E-ENUM",
   technique="exhaustive enumeration of all zones over the small name universe x all query names x 9 query types as wire queries through the real Catalog and in-memory store (unsigned, NSEC-signed, NSEC3-signed with DO), compared with an RFC 1034 4.3.2 / RFC 4592 reference lookup on exactly what the statement fixes",
   text="6,709 zones (d=2, K<=2, 11 node kinds: A, TXT, A+TXT, MX, CNAME to 4 targets, NS with/without glue, NS+DS; ENTs, leftmost and interior wildcards, names below cuts arise from the grammar) + 30 CNAME chain/loop zones x 41+ query names x {A,AAAA,MX,NS,CNAME,SOA,DS,TXT,ANY} x {unsigned DO=0, NSEC DO=1, NSEC3 DO=1}: 7.4 M (quick) / 141 M (thorough) wire queries. Oracle: rcode; answer RR set along the in-zone CNAME chain; referral at the closest enclosing cut with its NS set and no data from at/below a cut; wildcard synthesis from the closest encloser only; NODATA vs NXDOMAIN with SOA; with DO: an RRSIG for every authoritative RRset and an NSEC/NSEC3 on negative and wildcard answers.",
   note="Trusted: vref::zone (self-tested on RFC 4592 2.2.1 / 3.3.1). AA, additional section, ANY contents, NS/ANY at the cut itself are observations. Known-finding keys carry `hw=ok|differs` (whether the response matches what the known bottom-up wildcard rule predicts) so that a different wildcard bug surfaces as hw=differs.",
   design="6/C10, 11"),
}

NOT_BUILT_REASON = "check not built yet at this commit (design in DESIGN.md section 6); not claimed until its quick tier runs clean"

def main():
    props = [json.loads(l) for l in open(os.path.join(ROOT, "properties.jsonl"))]
    hooks = subprocess.run(["git", "-C", "/repo", "log", "--format=%H %s"], capture_output=True, text=True).stdout.splitlines()
    hook_commits = [l.split()[0] for l in hooks if " verif-hook:" in l]
    checks, na = [], []
    for p in props:
        i = p["id"]
        if i in CHECKS:
            c = CHECKS[i]
            checks.append({
                "property_id": i,
                "quick_cmd": f"./check {i} --tier quick",
                "thorough_cmd": f"./check {i} --tier thorough",
                "evidence_file": f"evidence/{i}.json",
                "replay_cmd_template": f"./check {i} --replay {{path}}",
                "engine": c["engine"],
                "level_claimed": {"category": c["level"], "text": c["text"], "design_ref": c["design"]},
                "level_note": c["note"],
                "technique": c["technique"],
            })
        else:
            na.append({"property_id": i, "reason": NOT_BUILT_REASON})
    m = {
        "version": 1,
        "setup_cmd": "cd harness && CARGO_NET_OFFLINE=true cargo build --offline --profile verif " + " ".join("-p " + c["property_id"].lower() for c in checks),
        "hooks": {
            "guard": "cargo feature `verif-hooks` on hickory-proto / -net / -resolver / -server (off by default)",
            "enable": "harness/Cargo.toml enables feature verif-hooks on its path dependencies to /repo/crates/*; every ./check rebuilds from /repo's working tree",
            "baseline_off_cmd": "cd /repo && cargo nextest run --workspace --no-fail-fast --offline || cargo test --workspace --no-fail-fast --offline",
            "source_commits": hook_commits[::-1],
            "add_only": True,
        },
        "engines": [
            {"name": "E-ENUM", "path": "harness/crates/vcore/src/lib.rs (Ctx::par_run) + enumerate.rs", "kind_free_text": "exhaustive enumeration of a declared finite input space (mixed-radix odometer), every element exactly once, 16 workers"},
            {"name": "E-STATE", "path": "harness/crates/vcore/src/explore.rs (bfs)", "kind_free_text": "explicit-state breadth-first search over operation histories executed on the real object, canonical-key deduplication"},
            {"name": "E-SCHED", "path": "harness/crates/vcore/src/explore.rs (explore_deviations)", "kind_free_text": "deviation-bounded exploration of environment schedules (all schedules with <=d departures from the default answer), run to completion under virtual time"},
            {"name": "E-FAULT", "path": "per-check", "kind_free_text": "record one honest run, then enumerate every crash prefix / fault position x kind and re-execute"},
        ],
        "checks": checks,
        "not_applicable": na,
        "notes": "Driver: ./check <ID> --tier quick|thorough [--replay F]. Exit 0 held / 1 VIOLATION / 2 machinery failure. Known findings: known_findings.json.",
    }
    for e in m["engines"]:
        e["serves_properties"] = [c["property_id"] for c in checks if c["engine"].startswith(e["name"]) or e["name"] in c["engine"]]
    json.dump(m, open(os.path.join(ROOT, "MANIFEST.json"), "w"), indent=1)
    print("claimed:", [c["property_id"] for c in checks])

main()
