#!/usr/bin/env python3
"""Regenerates MANIFEST.json from the table below (one entry per property)."""
import json, os, subprocess
ROOT = os.path.dirname(os.path.dirname(os.path.abspath(__file__)))

# id -> dict(level, engine, technique, text, note, design)   (built checks only)
CHECKS = {
 "C03": dict(level="exploration", engine="E-ENUM",
   technique="exhaustive bounded enumeration (every message of a bounded family x every size limit) against an independent wire walker",
   text="Every message of a size-diverse bounded family (<=k records per section, EDNS/TSIG/TC on/off) is encoded under EVERY limit 12..len+2 by the real encoder, and the real server path (Catalog -> MessageResponse::encode) is driven for RRsets of 1..N records x advertised payloads x UDP/TCP; each output is judged by an independent RFC 1035 walker (length, no leftover bytes, counts, section prefixes, TC). Exhaustive within the stated alphabet and bounds, no sampling.",
   note="Trusted: vref::wire walker; record alphabet (7 shapes) and <=3 records per section bound the message space; values outside are not covered.",
   design="6/C03"),
 "C16": dict(level="model_checking", engine="E-SCHED+E-STATE",
   technique="exhaustive enumeration of datagram arrival schedules (all sequences up to length 4/5 over 16 datagram kinds x socket generations, under virtual time) and explicit-state BFS over multiplexer event interleavings on the real code, against a reference acceptance predicate / routing table",
   text="(a) the real UdpClientStream over a scripted socket under the paused tokio clock: every sequence of <=4 (quick) / <=5 (thorough) forged/genuine datagrams incl. late replies to earlier sockets and tie cases; (b) the real DnsMultiplexer polled manually: BFS with state matching over send/deliver/duplicate/unknown-id/undecodable/cancel/timer/error/end/poll events for <=3 requests to depth 9/12. Every schedule/transition is executed on the implementation and judged by a reference acceptance predicate computed from raw bytes and a reference routing table.",
   note="Trusted: vref::wire, the scripted socket/stream and hand-fired timers faithfully stand in for the OS; event-level (not thread-level) schedules; ids are those observed on the wire.",
   design="6/C16, 11"),
}

NOT_BUILT_REASON = "check not built yet at this commit (design in DESIGN.md section 6); not claimed until its quick tier runs clean"

def main():
    props = [json.loads(l) for l in open(os.path.join(ROOT, "properties.jsonl"))]
    hooks = subprocess.run(["git", "-C", "/repo", "log", "--format=%H %s"], capture_output=True, text=True).stdout.splitlines()
    hook_commits = [l.split()[0] for l in hooks if " verif-hook:" in l]
    checks, na = [], []
    for p in props:
        i = p["id"]
        if i in CHECKS:
            c = CHECKS[i]
            checks.append({
                "property_id": i,
                "quick_cmd": f"./check {i} --tier quick",
                "thorough_cmd": f"./check {i} --tier thorough",
                "evidence_file": f"evidence/{i}.json",
                "replay_cmd_template": f"./check {i} --replay {{path}}",
                "engine": c["engine"],
                "level_claimed": {"category": c["level"], "text": c["text"], "design_ref": c["design"]},
                "level_note": c["note"],
                "technique": c["technique"],
            })
        else:
            na.append({"property_id": i, "reason": NOT_BUILT_REASON})
    m = {
        "version": 1,
        "setup_cmd": "cd harness && CARGO_NET_OFFLINE=true cargo build --offline --profile verif " + " ".join("-p " + c["property_id"].lower() for c in checks),
        "hooks": {
            "guard": "cargo feature `verif-hooks` on hickory-proto / -net / -resolver / -server (off by default)",
            "enable": "harness/Cargo.toml enables feature verif-hooks on its path dependencies to /repo/crates/*; every ./check rebuilds from /repo's working tree",
            "baseline_off_cmd": "cd /repo && cargo nextest run --workspace --no-fail-fast --offline || cargo test --workspace --no-fail-fast --offline",
            "source_commits": hook_commits[::-1],
            "add_only": True,
        },
        "engines": [
            {"name": "E-ENUM", "path": "harness/crates/vcore/src/lib.rs (Ctx::par_run) + enumerate.rs", "kind_free_text": "exhaustive enumeration of a declared finite input space (mixed-radix odometer), every element exactly once, 16 workers"},
            {"name": "E-STATE", "path": "harness/crates/vcore/src/explore.rs (bfs)", "kind_free_text": "explicit-state breadth-first search over operation histories executed on the real object, canonical-key deduplication"},
            {"name": "E-SCHED", "path": "harness/crates/vcore/src/explore.rs (explore_deviations)", "kind_free_text": "deviation-bounded exploration of environment schedules (all schedules with <=d departures from the default answer), run to completion under virtual time"},
            {"name": "E-FAULT", "path": "per-check", "kind_free_text": "record one honest run, then enumerate every crash prefix / fault position x kind and re-execute"},
        ],
        "checks": checks,
        "not_applicable": na,
        "notes": "Driver: ./check <ID> --tier quick|thorough [--replay F]. Exit 0 held / 1 VIOLATION / 2 machinery failure. Known findings: known_findings.json.",
    }
    for e in m["engines"]:
        e["serves_properties"] = [c["property_id"] for c in checks if c["engine"].startswith(e["name"]) or e["name"] in c["engine"]]
    json.dump(m, open(os.path.join(ROOT, "MANIFEST.json"), "w"), indent=1)
    print("claimed:", [c["property_id"] for c in checks])

main()
